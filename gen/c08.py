# C08 — concurrent renders on one engine vs the same renders one at a time (race detector on).
# A call is (template, data, context); the context reaches the template through context-aware template functions.
import json
import os
import subprocess
from common import *
import tmpl

# ------------------------------------------------------------------ fixed templates (pug AST via gen/tmpl.py)
I = lambda x: ('id', x)
N = lambda n: ('num', n)
S = lambda s: ('str', s)


def code(*stmts):
    return ('code', list(stmts), False, False)


def buf(e, inline=True):
    return ('code', [('expr', e)], True, inline)


def raw(e, inline=True):
    """!= e : buffered, not escaped"""
    return ('code', [('expr', e)], False, inline)


def tag(name, kids, attrs=(), inline=False):
    return ('tag', name, inline, list(attrs), [], list(kids))


def text(s):
    return ('text', s)


def var(x, e):
    return ('vars', [('var', x, e)])


def assign(l, r):
    return ('expr', ('assign', l, r))


def call(recv, m, *args):
    return ('call', ('dot', recv, m), list(args))


def fcall(f, *args):
    return ('call', I(f), list(args))


ZERO = ('bin', '+', N(0), N(0))   # a computed 0 (a literal initialiser would be a Go-native int, see F-C20-f)

TEMPLATES = {
    # loop with index, a running sum (variable mutation across iterations), escaped data
    "loop": [
        code(var(b"total", ZERO)),
        tag(b"ul", [('each', b"v", b"i", I(b"items"), [
            code(assign(I(b"total"), ('bin', '+', I(b"total"), I(b"v")))),
            tag(b"li", [buf(I(b"i")), text(b"="), buf(I(b"v"))]),
        ])]),
        tag(b"p", [text(b"sum "), buf(I(b"total")), text(b" of "), buf(('dot', I(b"items"), b"length"))]),
        tag(b"b", [buf(I(b"title"))]),
    ],
    # mixin with arguments and a block that reads the caller's variables, called in a loop
    "mixins": [
        ('mixin', b"card", [b"ttl", b"n"], [
            tag(b"div", [tag(b"h2", [buf(I(b"ttl"))]), tag(b"i", [buf(('bin', '*', I(b"n"), N(2)))]), ('mixinblock',)],
                attrs=[(b"class", S(b"card"), True)])]),
        ('each', b"it", None, I(b"cards"), [
            ('call', b"card", [('dot', I(b"it"), b"name"), ('dot', I(b"it"), b"qty")], [], [
                tag(b"span", [text(b"for "), buf(I(b"user")), text(b"/"), buf(('dot', I(b"it"), b"name"))])]),
        ]),
        ('call', b"card", [S(b"last"), N(21)], [], []),
    ],
    # array push / sort / join, string building
    "mutate": [
        code(var(b"acc", ('arr', []))),
        code(var(b"k", ZERO)),
        ('each', b"v", None, I(b"xs"), [
            code(('expr', call(I(b"acc"), b"push", ('bin', '*', I(b"v"), N(3))))),
            code(assign(I(b"k"), ('bin', '+', I(b"k"), N(1)))),
        ]),
        code(('expr', call(I(b"acc"), b"sort"))),
        tag(b"p", [buf(call(I(b"acc"), b"join", S(b",")))]),
        tag(b"p", [buf(I(b"k")), text(b" "), buf(('dot', I(b"acc"), b"length"))]),
        code(var(b"w", I(b"word"))),
        code(assign(I(b"w"), ('bin', '+', I(b"w"), S(b"!")))),
        code(assign(I(b"w"), ('bin', '+', I(b"w"), I(b"w")))),
        tag(b"q", [buf(I(b"w"))]),
    ],
    # $global: the per-render map shared between a template and its mixins
    "glob": [
        ('mixin', b"bump", [b"by"], [
            code(assign(('dot', I(b"global"), b"count"), ('bin', '+', ('dot', I(b"global"), b"count"), I(b"by")))),
            tag(b"s", [buf(('dot', I(b"global"), b"count"))])]),
        code(assign(('dot', I(b"global"), b"count"), I(b"start"))),
        code(assign(('dot', I(b"global"), b"who"), I(b"user"))),
        ('each', b"d", None, I(b"deltas"), [('call', b"bump", [I(b"d")], [], [])]),
        tag(b"p", [buf(('dot', I(b"global"), b"count")), text(b" by "), buf(('dot', I(b"global"), b"who"))]),
    ],
    # template functions from the shared function table: Math, JSON, Object
    "funcs": [
        tag(b"p", [buf(call(I(b"Math"), b"max", I(b"a"), I(b"b"))), text(b" "), buf(call(I(b"Math"), b"min", I(b"a"), I(b"b"))),
                   text(b" "), buf(call(I(b"Math"), b"ceil", ('bin', '/', I(b"a"), N(4))))]),
        tag(b"pre", [buf(call(I(b"JSON"), b"stringify", I(b"obj")))]),
        tag(b"u", [buf(call(call(I(b"Object"), b"keys", I(b"obj")), b"join", S(b"|")))]),
        code(var(b"merged", call(I(b"Object"), b"assign", ('obj', [(b"z", N(1))]), I(b"obj")))),
        tag(b"pre", [buf(call(I(b"JSON"), b"stringify", I(b"merged")))]),
    ],
    # while / if / case / attributes
    "ctl": [
        code(var(b"i", ZERO)),
        ('while', ('bin', '<', I(b"i"), I(b"n")), [
            ('cond', ('bin', '==', ('bin', '%', I(b"i"), N(2)), N(0)), [tag(b"e", [buf(I(b"i"))])],
             ('block', [tag(b"o", [buf(I(b"i"))])])),
            code(assign(I(b"i"), ('bin', '+', I(b"i"), N(1)))),
        ]),
        ('case', I(b"kind"), [(S(b"a"), [text(b"is-a")]), (S(b"b"), [text(b"is-b")]), (None, [text(b"other")])]),
        tag(b"a", [buf(I(b"label"))], attrs=[(b"href", I(b"url"), True), (b"class", S(b"lnk"), True)]),
    ],
    "sub/page": [
        ('doctype', b"html"),
        tag(b"html", [tag(b"body", [tag(b"h1", [buf(I(b"title"))]),
                                    ('each', b"v", None, I(b"items"), [tag(b"p", [buf(I(b"v"))])])])]),
    ],
    # data-dependent execution error: JSON.parse of the data (an execution panic when it is not JSON)
    "fail": [
        tag(b"p", [text(b"before")]),
        tag(b"p", [buf(('dot', call(I(b"JSON"), b"parse", I(b"word")), b"k"))]),
    ],
    # ---- templates whose output depends on the CONTEXT of the render, through the harness's context-aware
    # template functions (harness/c08ctx.go): who() / cnum(x) / cget(k) / alive() / Req.user() / Req.plus(x)
    # answer from the call's context, meet() is a bare stagger point
    # straight line: several different functions, some used twice
    "ctx/line": [
        tag(b"p", [buf(fcall(b"who")), text(b"|"), buf(fcall(b"cnum", I(b"a"))), text(b"|"), buf(fcall(b"meet")),
                   text(b"|"), buf(fcall(b"who")), text(b"|"), buf(fcall(b"cget", I(b"key"))), text(b"|"),
                   buf(fcall(b"alive")), text(b"|"), buf(call(I(b"Req"), b"user")), text(b"|"),
                   buf(fcall(b"cnum", N(1000)))]),
        tag(b"b", [buf(I(b"title"))]),
    ],
    # context functions called in a loop, mixed with data and a running sum
    "ctx/loop": [
        code(var(b"total", ZERO)),
        tag(b"ul", [('each', b"v", b"i", I(b"items"), [
            code(assign(I(b"total"), ('bin', '+', I(b"total"), fcall(b"cnum", I(b"v"))))),
            tag(b"li", [buf(fcall(b"who")), text(b":"), buf(fcall(b"cnum", I(b"v"))), text(b":"),
                        buf(fcall(b"cget", ('bin', '+', S(b"k"), ('bin', '%', I(b"i"), N(4))))), buf(fcall(b"meet"))]),
        ])]),
        tag(b"p", [buf(I(b"total")), text(b" for "), buf(call(I(b"Req"), b"user")), text(b" "), buf(fcall(b"alive"))]),
    ],
    # context functions inside a mixin, in the mixin's block and in attributes
    "ctx/mixin": [
        ('mixin', b"badge", [b"k"], [
            tag(b"span", [buf(fcall(b"cget", I(b"k"))), text(b"@"), buf(fcall(b"who")), ('mixinblock',)],
                attrs=[(b"title", fcall(b"who"), True)])]),
        ('each', b"k", None, I(b"keys"), [
            ('call', b"badge", [I(b"k")], [], [
                tag(b"i", [buf(call(I(b"Req"), b"plus", I(b"n"))), text(b"/"), buf(I(b"k"))])]),
        ]),
        ('call', b"badge", [S(b"k0")], [], []),
        tag(b"q", [buf(fcall(b"who")), buf(fcall(b"meet")), buf(fcall(b"alive"))]),
    ],
    # ---- templates that go through the engine's RARELY USED SHARED HELPERS: members that are not there
    # (optional members, the name-folding fallbacks of Map.Member: Name for name, ID/URL/API spellings),
    # string helpers, number formatting.  Many renders at once are inside them in the 'rare' storms.
    # optional members of list items, most of them absent
    "opt/list": [
        tag(b"ul", [('each', b"item", b"i", I(b"items"), [
            tag(b"li", [buf(('dot', I(b"item"), b"label")),
                        ('cond', ('dot', I(b"item"), b"badge"), [tag(b"span", [buf(('dot', I(b"item"), b"badge"))], inline=True)], None),
                        ('cond', ('dot', I(b"item"), b"note"), [tag(b"em", [buf(('dot', I(b"item"), b"note"))], inline=True)],
                         ('block', [text(b"-")])),
                        buf(('dot', ('dot', I(b"item"), b"meta"), b"deep"))],
                attrs=[(b"class", ('dot', I(b"item"), b"cls"), True), (b"data-k", ('dot', I(b"item"), b"key"), True)]),
        ])]),
        tag(b"p", [buf(I(b"title")), text(b"/"), buf(I(b"nosuchvar_member_of_data"))]),
    ],
    # a mixin that looks at attributes it may not have been given
    "opt/mixin": [
        ('mixin', b"btn", [b"label"], [
            tag(b"a", [buf(I(b"label")),
                       ('cond', ('dot', I(b"attributes"), b"title"), [tag(b"sup", [buf(('dot', I(b"attributes"), b"title"))], inline=True)], None)],
                attrs=[(b"class", ('bin', '||', ('dot', I(b"attributes"), b"class"), S(b"plain")), True),
                       (b"href", ('bin', '||', ('dot', I(b"attributes"), b"href"), S(b"#")), True)]),
            ('mixinblock',)]),
        ('call', b"btn", [I(b"a")], [(b"class", S(b"big"), True), (b"title", I(b"t"), True)], []),
        ('call', b"btn", [I(b"b")], [], [tag(b"small", [buf(('dot', I(b"opts"), b"hint"))], inline=True)]),
        ('each', b"x", None, I(b"more"), [
            ('call', b"btn", [('dot', I(b"x"), b"name")], [(b"href", ('dot', I(b"x"), b"link"), True)], [])]),
    ],
    # names that are found only by folding: Name for name, userID for userid, URL for url, ...
    "opt/fold": [
        ('each', b"o", None, I(b"objs"), [
            tag(b"p", [buf(('dot', I(b"o"), b"name")), text(b"|"), buf(('dot', I(b"o"), b"id")), text(b"|"),
                       buf(('dot', I(b"o"), b"url")), text(b"|"), buf(('dot', I(b"o"), b"userid")), text(b"|"),
                       buf(('dot', I(b"o"), b"apikey")), text(b"|"), buf(('dot', I(b"o"), b"firstName")), text(b"|"),
                       buf(('dot', I(b"o"), b"nothing"))]),
        ]),
    ],
    # string helpers and number formatting
    "str/fmt": [
        tag(b"p", [buf(call(I(b"s"), b"toUpperCase")), text(b"|"), buf(call(I(b"s"), b"toLowerCase")), text(b"|"),
                   buf(call(I(b"s"), b"charAt", N(0))), text(b"|"), buf(call(I(b"s"), b"indexOf", S(b"a"))), text(b"|"),
                   buf(call(I(b"s"), b"slice", N(1))), text(b"|"), buf(call(I(b"s"), b"replace", S(b"a"), S(b"<o>"))), text(b"|"),
                   buf(('dot', I(b"s"), b"length"))]),
        tag(b"p", [buf(call(call(I(b"csv"), b"split", S(b",")), b"join", S(b" + "))), text(b"|"),
                   buf(('dot', call(I(b"csv"), b"split", S(b",")), b"length")), text(b"|"), buf(fcall(b"stripTags", I(b"html")))]),
        tag(b"p", [buf(('bin', '/', I(b"n"), N(7))), text(b"|"), buf(('bin', '*', I(b"n"), ('numf', b"1.5"))), text(b"|"),
                   buf(('bin', '/', I(b"n"), N(1000000))), text(b"|"), buf(('bin', '*', I(b"n"), N(123456789))), text(b"|"),
                   buf(call(I(b"Math"), b"round", ('bin', '/', I(b"n"), N(3)))), text(b"|"), buf(fcall(b"parseInt", I(b"digits"))),
                   text(b"|"), buf(('bin', '+', S(b"#"), I(b"n")))]),
    ],
    # ---- STRUCT data (harness/c08data.go): Go types the engine has not seen before the round
    # one record of a reflect.StructOf type, few or very many fields
    "rec/one": [
        tag(b"p", [buf(('dot', I(b"rec"), b"name")), text(b"/"), buf(('bin', '*', ('dot', I(b"rec"), b"qty"), N(2))), text(b"/"),
                   buf(('dot', I(b"rec"), b"last"))]),
        tag(b"p", [buf(('dot', I(b"rec"), b"p0")), text(b","), buf(('dot', I(b"rec"), b"p6")), text(b","),
                   buf(('dot', I(b"rec"), b"p59")), text(b","), buf(('dot', I(b"rec"), b"p399"))]),
        tag(b"ul", [('each', b"t", None, ('dot', I(b"rec"), b"tags"), [tag(b"li", [buf(I(b"t"))])])]),
        ('cond', ('dot', I(b"rec"), b"inner"), [tag(b"b", [buf(('dot', ('dot', I(b"rec"), b"inner"), b"title"))])],
         ('block', [text(b"no inner")])),
        ('cond', ('dot', I(b"rec"), b"badge"), [tag(b"span", [buf(('dot', I(b"rec"), b"badge"))])], None),
        tag(b"q", [buf(('dot', I(b"rec"), b"tail"))]),
    ],
    # a list of records of one struct type
    "rec/list": [
        tag(b"ol", [('each', b"it", b"i", I(b"items"), [
            tag(b"li", [buf(I(b"i")), text(b":"), buf(('dot', I(b"it"), b"label")), text(b" "), buf(('dot', I(b"it"), b"price")),
                        ('cond', ('dot', I(b"it"), b"badge"), [tag(b"span", [buf(('dot', I(b"it"), b"badge"))], inline=True)], None),
                        text(b" "), buf(('dot', I(b"it"), b"tail"))]),
        ])]),
        tag(b"p", [buf(('dot', I(b"items"), b"length")), text(b" for "), buf(I(b"user"))]),
    ],
    # values of named Go types with methods (one instance of a generic type per round)
    "rec/named": [
        tag(b"p", [buf(('dot', I(b"rec"), b"name")), text(b"|"), buf(call(I(b"rec"), b"label")), text(b"|"),
                   buf(call(I(b"rec"), b"double")), text(b"|"), buf(call(I(b"rec"), b"hasTag", I(b"want"))), text(b"|"),
                   buf(call(I(b"rec"), b"tagLine")), text(b"|"), buf(('dot', I(b"rec"), b"productID")), text(b"|"),
                   buf(('dot', I(b"rec"), b"productid")), text(b"|"), buf(('dot', I(b"rec"), b"uRL")), text(b"|"),
                   buf(('dot', I(b"rec"), b"missing"))]),
        ('cond', ('dot', I(b"rec"), b"inner"), [tag(b"b", [buf(('dot', ('dot', I(b"rec"), b"inner"), b"title"))])],
         ('block', [text(b"no inner")])),
        tag(b"ul", [('each', b"it", None, I(b"list"), [
            tag(b"li", [buf(call(I(b"it"), b"label")), text(b" "), buf(('dot', ('dot', I(b"it"), b"tags"), b"length"))])])]),
    ],
    # ---- SERIALISING templates for the 'heavy' storms: whole objects go through the encoders (json(), JSON.stringify,
    # printing an object, an object as attribute value), recursive mixins walk the data as deep as it is, loops
    # run as often and write as much as the data says.  Whatever the engine counts or limits per render (nesting
    # depth, recursion depth, iterations, bytes) is then counted in MANY renders at the same time.
    # the page's data embedded as JSON, four ways
    "ser/json": [
        tag(b"script", [raw(fcall(b"json", I(b"doc")))]),
        tag(b"p", [buf(('dot', I(b"doc"), b"name"))]),
        tag(b"pre", [raw(call(I(b"JSON"), b"stringify", I(b"doc")))]),
        tag(b"div", [raw(I(b"doc"))], attrs=[(b"data-doc", ('dot', I(b"doc"), b"child"), True)]),
        tag(b"q", [buf(('dot', ('dot', I(b"doc"), b"child"), b"name")), buf(fcall(b"meet"))]),
    ],
    # a recursive mixin that walks a tree (chain of `child`, lists of `kids`), serialising sub-trees on its way
    # down and, at marked nodes, the whole page data from the bottom of the recursion
    "ser/tree": [
        ('mixin', b"node", [b"n", b"d"], [
            tag(b"li", [
                buf(('dot', I(b"n"), b"name")), text(b"@"), buf(I(b"d")),
                ('cond', ('dot', I(b"n"), b"mark"), [tag(b"code", [raw(fcall(b"json", I(b"doc")))], inline=True),
                                                     buf(fcall(b"meet"))], None),
                ('cond', ('dot', I(b"n"), b"child"),
                 [tag(b"ul", [('call', b"node", [('dot', I(b"n"), b"child"), ('bin', '+', I(b"d"), N(1))], [], [])])],
                 ('block', [tag(b"i", [raw(fcall(b"json", I(b"n")))], inline=True)])),
                ('cond', ('dot', I(b"n"), b"kids"),
                 [tag(b"ol", [('each', b"c", None, ('dot', I(b"n"), b"kids"), [
                     ('call', b"node", [I(b"c"), ('bin', '+', I(b"d"), N(1))], [], [])])])], None),
            ])]),
        tag(b"ul", [('call', b"node", [I(b"doc"), ZERO], [], [])]),
        tag(b"pre", [raw(call(I(b"JSON"), b"stringify", ('dot', I(b"doc"), b"child")))]),
    ],
    # long loops and a long output: a table of rows with a nested object each, a running total, a while loop that
    # only counts
    "ser/rows": [
        code(var(b"total", ZERO)),
        tag(b"table", [('each', b"r", b"i", I(b"rows"), [
            tag(b"tr", [tag(b"td", [buf(I(b"i"))], inline=True), tag(b"td", [buf(('dot', I(b"r"), b"name"))], inline=True),
                        tag(b"td", [buf(('bin', '*', ('dot', I(b"r"), b"price"), ('dot', I(b"r"), b"qty")))], inline=True),
                        tag(b"td", [raw(fcall(b"json", ('dot', I(b"r"), b"meta")))], inline=True)]),
            code(assign(I(b"total"), ('bin', '+', I(b"total"), ('bin', '*', ('dot', I(b"r"), b"price"), ('dot', I(b"r"), b"qty"))))),
        ])]),
        tag(b"p", [buf(I(b"total")), text(b" in "), buf(('dot', I(b"rows"), b"length"))]),
        code(var(b"i", ZERO)),
        code(var(b"acc", ZERO)),
        ('while', ('bin', '<', I(b"i"), I(b"spin")), [
            code(assign(I(b"acc"), ('bin', '+', I(b"acc"), ('bin', '%', I(b"i"), N(7))))),
            code(assign(I(b"i"), ('bin', '+', I(b"i"), N(1)))),
        ]),
        tag(b"p", [buf(I(b"acc")), text(b"/"), buf(I(b"i")), buf(fcall(b"meet"))]),
        tag(b"pre", [raw(call(I(b"JSON"), b"stringify", I(b"summary")))]),
    ],
    # ---- templates that WRITE INTO THEIR DATA: push to / sort / assign into lists and objects found in the page data
    # (directly, behind members of records, inside lists).  In the 'shared' storms those are objects of the
    # engine's own model (results of pugjs.Convert) that the caller hands to every render; a render must see its
    # own writes only.
    # a record `page` (a map, a struct, a pointer to either) with a list `tags` and an object `attrs`
    "own/page": [
        code(('expr', call(('dot', I(b"page"), b"tags"), b"push", I(b"name")))),
        code(('expr', call(('dot', I(b"page"), b"tags"), b"push", I(b"user")))),
        tag(b"p", [buf(call(('dot', I(b"page"), b"tags"), b"join", S(b",")))]),
        code(assign(('dot', ('dot', I(b"page"), b"attrs"), b"seen"), I(b"name"))),
        code(assign(('dot', ('dot', I(b"page"), b"attrs"), b"by"), ('bin', '+', ('dot', ('dot', I(b"page"), b"attrs"), b"by"), I(b"user")))),
        tag(b"pre", [buf(call(I(b"JSON"), b"stringify", ('dot', I(b"page"), b"attrs")))]),
        code(('expr', call(('dot', I(b"page"), b"tags"), b"sort"))),
        tag(b"p", [buf(call(('dot', I(b"page"), b"tags"), b"join", S(b"|"))), text(b" #"),
                   buf(('dot', ('dot', I(b"page"), b"tags"), b"length"))]),
        tag(b"b", [buf(('dot', I(b"page"), b"title"))]),
    ],
    # a list of records, each with its own list that the loop pushes to
    "own/list": [
        tag(b"ul", [('each', b"it", b"i", I(b"items"), [
            code(('expr', call(('dot', I(b"it"), b"tags"), b"push", I(b"user")))),
            code(assign(('dot', I(b"it"), b"label"), ('bin', '+', ('dot', I(b"it"), b"label"), S(b"*")))),
            tag(b"li", [buf(I(b"i")), text(b":"), buf(('dot', I(b"it"), b"label")), text(b":"),
                        buf(call(('dot', I(b"it"), b"tags"), b"join", S(b",")))]),
        ])]),
        tag(b"p", [buf(('dot', I(b"items"), b"length")), text(b" for "), buf(I(b"user"))]),
    ],
    # lists and objects that are members of the page data itself
    "own/direct": [
        code(('expr', call(I(b"tags"), b"push", I(b"name")))),
        code(assign(('dot', I(b"conf"), b"last"), I(b"name"))),
        code(('expr', call(('dot', I(b"extra"), b"a"), b"push", I(b"name")))),
        code(('expr', call(('dot', I(b"extra"), b"a"), b"push", S(b"z")))),
        tag(b"p", [buf(call(I(b"tags"), b"join", S(b",")))]),
        tag(b"pre", [buf(call(I(b"JSON"), b"stringify", I(b"conf")))]),
        tag(b"p", [buf(call(('dot', I(b"extra"), b"a"), b"join", S(b","))), text(b" #"),
                   buf(('dot', ('dot', I(b"extra"), b"a"), b"length"))]),
        ('each', b"v", None, I(b"tags"), [tag(b"i", [buf(I(b"v"))], inline=True)]),
    ],
}
TNAMES = sorted(TEMPLATES)
OWN_TNAMES = [t for t in TNAMES if t.startswith("own/")]
SER_TNAMES = [t for t in TNAMES if t.startswith("ser/")]
CTX_TNAMES = [t for t in TNAMES if t.startswith("ctx/")]
RARE_TNAMES = [t for t in TNAMES if t.startswith(("opt/", "str/"))]
REC_TNAMES = [t for t in TNAMES if t.startswith("rec/")]
FILES = {hx(k): hx(tmpl.pug_file(TEMPLATES[k])) for k in TNAMES}

WORDS = [b"ab", b"x", b"Hello", b"<b>&\"'", b"", b"z9", b"\xc3\xa9t\xc3\xa9", b"a&b", b"</script>", b"k1 k2"]
CLASS_CODE = {"not_found": 1, "exec_panic": 2, "load_error": 3, "ctx_error": 4, "error": 5}
CHUNK = 32   # Models/Sched.v chunk_len


def gen_data(rng, t):
    ints = lambda lo, hi: [rng.randint(-20, 99) for _ in range(rng.randint(lo, hi))]
    w = lambda: rng.choice(WORDS)
    if t == "loop":
        return {b"items": ints(0, 8), b"title": w()}
    if t == "mixins":
        return {b"user": w(), b"cards": [{b"name": w(), b"qty": rng.randint(0, 50)} for _ in range(rng.randint(0, 5))]}
    if t == "mutate":
        return {b"xs": ints(0, 8), b"word": w()}
    if t == "glob":
        return {b"start": rng.randint(0, 100), b"user": w(), b"deltas": ints(0, 6)}
    if t == "funcs":
        return {b"a": rng.randint(0, 99), b"b": rng.randint(0, 99),
                b"obj": {b"k": w(), b"n": rng.randint(0, 9), b"l": ints(0, 3)}}
    if t == "ctl":
        return {b"n": rng.randint(0, 8), b"kind": rng.choice([b"a", b"b", b"c"]), b"label": w(),
                b"url": rng.choice([b"/x?a=1&b=2", b"/", b"/p/" + w()])}
    if t == "sub/page":
        return {b"title": w(), b"items": [w() for _ in range(rng.randint(0, 5))]}
    if t == "fail":
        return {b"word": rng.choice([b'{"k": 7}', b'{"k": "v"}', b"{bad", b""])}
    if t == "ctx/line":
        return {b"a": rng.randint(0, 99), b"key": rng.choice(CTX_KEYS), b"title": w()}
    if t == "ctx/loop":
        return {b"items": ints(1, 8)}
    if t == "ctx/mixin":
        return {b"keys": [rng.choice(CTX_KEYS) for _ in range(rng.randint(0, 5))], b"n": rng.randint(0, 50)}
    if t == "opt/list":
        def item(k):
            it = {b"label": w() + b"-%d" % k}
            if rng.random() < 0.2:
                it[b"badge"] = w()
            if rng.random() < 0.15:
                it[b"note"] = w()
            if rng.random() < 0.3:
                it[b"cls"] = rng.choice([b"hot", b"new", b"a b"])
            if rng.random() < 0.1:
                it[b"meta"] = {b"deep": w()}
            return it
        return {b"items": [item(k) for k in range(rng.randint(1, 12))], b"title": w()}
    if t == "opt/mixin":
        d = {b"a": w(), b"b": w(), b"more": [{b"name": w()} if rng.random() < 0.6 else {b"name": w(), b"link": b"/l/" + w()}
                                               for _ in range(rng.randint(0, 5))]}
        if rng.random() < 0.4:
            d[b"t"] = w()
        if rng.random() < 0.3:
            d[b"opts"] = {b"hint": w()} if rng.random() < 0.5 else {}
        return d
    if t == "opt/fold":
        def obj():
            o = {}
            for js, spellings in FOLD_SPELLINGS:
                if rng.random() < 0.55:
                    o[rng.choice(spellings)] = w()
            return o
        return {b"objs": [obj() for _ in range(rng.randint(1, 6))]}
    if t == "str/fmt":
        return {b"s": w() + rng.choice([b"", b"banana", b"A a"]), b"csv": b",".join(w() for _ in range(rng.randint(1, 5))),
                b"html": b"<p>" + w() + b"</p><br/>" + w(), b"n": rng.randint(-999, 99999),
                b"digits": rng.choice([b"42", b"007", b"-3", b"12px", b"x"])}
    if t == "rec/one":
        return {b"rec": gen_sof(rng, rng.randrange(4))}
    if t == "rec/list":
        fam = rng.randrange(4)
        pad, pad_at = rng.choice(PADS), rng.randint(0, 4)
        def it(k):
            f = [(b"Label", w() + b"-%d" % k), (b"Price", rng.randint(0, 9999)), (b"Tail", b"t%d" % k)]
            if fam % 2:
                f.insert(2, (b"Badge", w() if rng.random() < 0.3 else b""))
            return Sof(f, pad, min(pad_at, len(f)), fam, False)
        return {b"items": [it(k) for k in range(rng.randint(1, 6))], b"user": w()}
    if t == "rec/named":
        def named(depth=0):
            return Named(rng.randrange(48), rng.random() < 0.3, w(), rng.randint(0, 500),
                         [rng.choice([b"x", b"y", b"z", b"<t>"]) for _ in range(rng.randint(0, 3))],
                         b"/u/" + w(), b"P-%d" % rng.randint(0, 999),
                         (None if rng.random() < 0.5 else {b"title": w()} if rng.random() < 0.5 else gen_sof(rng, 5)))
        idx = rng.randrange(48)
        rec = named()
        lst = [named() for _ in range(rng.randint(0, 4))]
        for x in [rec] + lst:
            if rng.random() < 0.7:
                x.idx = idx       # mostly ONE named type per job: every goroutine of the round converts it
        return {b"rec": rec, b"list": lst, b"want": rng.choice([b"x", b"y", b"q"])}
    if t in SER_TNAMES:
        return gen_ser(rng, t, rng.randint(1, 4), 1)
    if t in OWN_TNAMES:     # (outside the 'shared' storms: mostly plain Go values, sometimes converted objects)
        return gen_own(rng, t, SharedPool(rng, "x%d." % rng.randrange(1 << 30), share=0.3))
    return {b"x": 1}   # a template that is not loaded: not_found


def gen_node(rng, depth, level=1, kids_left=None):
    """a tree of plain maps: a chain of `child` members `depth` objects deep, some nodes with a list of `kids`
    (small sub-trees), a few of them marked"""
    w = lambda: rng.choice(WORDS)
    kids_left = kids_left if kids_left is not None else [4]
    n = {b"name": w() + b"-%d" % level, b"level": level}
    if rng.random() < 0.3:
        n[b"tags"] = [w() for _ in range(rng.randint(0, 3))]
    if rng.random() < 0.15:
        n[b"dims"] = {b"w": rng.randint(0, 99), b"h": rng.randint(0, 99)}
    if level < depth:
        n[b"child"] = gen_node(rng, depth, level + 1, kids_left)
    if kids_left[0] > 0 and rng.random() < 0.2:
        k = rng.randint(1, min(3, kids_left[0]))
        kids_left[0] -= k
        n[b"kids"] = [gen_node(rng, min(depth, level + rng.randint(1, 3)), level + 1, [0]) for _ in range(k)]
    return n


def mark_leaves(rng, n, budget):
    """mark up to budget[0] nodes at the END of child chains (the whole page data is serialised from there)"""
    if b"child" in n:
        mark_leaves(rng, n[b"child"], budget)
    elif budget[0] > 0 and rng.random() < 0.7:
        budget[0] -= 1
        n[b"mark"] = True
    for k in n.get(b"kids", []):
        mark_leaves(rng, k, budget)


def depth_of(v):
    """objects nested in each other (maps count, lists pass through)"""
    if isinstance(v, dict):
        return 1 + max([depth_of(x) for x in v.values()] or [0])
    if isinstance(v, list):
        return max([depth_of(x) for x in v] or [0])
    return 0


def gen_ser(rng, t, depth, scale):
    """data of a serialising template: `depth` = objects nested in each other, `scale` stretches loop counts"""
    w = lambda: rng.choice(WORDS)
    if t == "ser/json":
        return {b"doc": gen_node(rng, depth)}
    if t == "ser/tree":
        doc = gen_node(rng, depth)
        mark_leaves(rng, doc, [2])
        return {b"doc": doc}
    def row(k):
        meta = {b"sku": b"S%d" % rng.randint(0, 9999)}
        if rng.random() < 0.5:
            meta[b"dims"] = {b"w": rng.randint(0, 99), b"h": rng.randint(0, 99), b"unit": {b"n": w()}}
        if rng.random() < 0.3:
            meta[b"tags"] = [w() for _ in range(rng.randint(0, 2))]
        return {b"name": w() + b"-%d" % k, b"price": rng.randint(0, 999), b"qty": rng.randint(0, 20), b"meta": meta}
    nrows = rng.randint(0, 8) * scale
    return {b"rows": [row(k) for k in range(nrows)], b"spin": rng.choice([0, 3, 50, 400]) * scale,
            b"summary": {b"by": w(), b"first": (row(0) if nrows else None), b"n": nrows}}


# the JS spelling a template uses and spellings of the key that Map.Member's fallbacks find (or do not)
FOLD_SPELLINGS = [
    (b"name", [b"name", b"Name", b"NAME"]),
    (b"id", [b"id", b"ID", b"Id"]),
    (b"url", [b"url", b"URL", b"Url"]),
    (b"userid", [b"userid", b"userID", b"UserID", b"Userid"]),
    (b"apikey", [b"apikey", b"APIkey", b"aPIkey", b"Apikey"]),
    (b"firstName", [b"firstName", b"FirstName", b"firstname"]),
]
PADS = [0, 0, 7, 60, 60, 400, 400]


class Sof:
    """a value of a reflect.StructOf type (harness/c08data.go)"""
    def __init__(self, fields, pad, pad_at, fam, ptr):
        self.fields, self.pad, self.pad_at, self.fam, self.ptr = fields, pad, pad_at, fam, ptr


class Named:
    """a value of an instance of the harness's generic named struct type with methods"""
    def __init__(self, idx, ptr, name, qty, tags, url, pid, inner):
        self.idx, self.ptr, self.name, self.qty, self.tags, self.url, self.pid, self.inner = idx, ptr, name, qty, tags, url, pid, inner


def gen_sof(rng, fam):
    w = lambda: rng.choice(WORDS)
    f = [(b"Name", w()), (b"Qty", rng.randint(0, 500)), (b"Tags", [w() for _ in range(rng.randint(0, 3))]),
         (b"Last", w()), (b"Tail", b"end-" + w())]
    if rng.random() < 0.4:
        f.insert(3, (b"Inner", Sof([(b"Title", w()), (b"N", rng.randint(0, 9))], rng.choice([0, 7]), rng.randint(0, 2), 8 + fam, False)
                     if rng.random() < 0.6 else {b"title": w()}))
    if rng.random() < 0.2:
        f.insert(1, (b"Badge", w()))
    if rng.random() < 0.3:
        f.insert(0, (b"Title", w()))
    return Sof(f, rng.choice(PADS), rng.randint(0, len(f)), fam, rng.random() < 0.2)


# ------------------------------------------------------------------ objects of the engine's model shared between renders
class Shared:
    """ONE result of pugjs.Convert(val), held by the caller under `sid` and put into the data of every render
    of the case that names it (harness/c08data.go tag "shared")"""
    def __init__(self, sid, val):
        self.sid, self.val = sid, val


class Ptr:
    """a pointer to the value"""
    def __init__(self, val):
        self.val = val


class Objs:
    """[]pugjs.Object"""
    def __init__(self, items):
        self.items = items


class OMap:
    """map[string]pugjs.Object"""
    def __init__(self, items):
        self.items = items


class SharedPool:
    """the converted objects the caller of one case holds: a few lists, a few objects (some with a list inside),
    a few records with a list; jobs of the case draw from the same pool, so different templates and different
    containers lead to the same object.  share = how often a value is one of them rather than a plain Go value
    of the render's own."""
    def __init__(self, rng, prefix, share=1.0):
        self.rng, self.prefix, self.share, self.made = rng, prefix, share, {}

    def _get(self, kind, mk):
        rng = self.rng
        v = mk()
        if rng.random() >= self.share:
            return v                       # a plain Go value, built afresh for every render
        sid = "%s%s%d" % (self.prefix, kind, rng.randrange(2))
        if sid not in self.made:
            self.made[sid] = Shared(sid, v)
        return self.made[sid]

    def words(self):
        rng = self.rng
        return self._get("L", lambda: [rng.choice(WORDS) for _ in range(rng.randint(0, 4))])

    def obj(self):
        rng = self.rng
        def mk():
            o = {b"by": rng.choice(WORDS), b"k": rng.choice(WORDS)}
            if rng.random() < 0.5:
                o[b"n"] = rng.randint(0, 99)
            if rng.random() < 0.3:
                o[b"list"] = [rng.choice(WORDS) for _ in range(rng.randint(0, 2))]
            return o
        return self._get("M", mk)

    def record(self, k):
        """a record with a label and a list of its own (a converted map as a whole)"""
        rng = self.rng
        return self._get("R", lambda: {b"label": rng.choice(WORDS) + b"-%d" % k,
                                       b"tags": [rng.choice(WORDS) for _ in range(rng.randint(0, 3))]})


HOLDERS = ["map", "sof", "sofptr", "sofptr", "ptrmap", "ptrptr", "omap"]


def holder(rng, fields, kinds=HOLDERS):
    """one record of the page data with the given members (lower-case names), as the Go value an application
    might use: a map, a struct value, a pointer to a struct, a pointer to a map, a pointer to a pointer to a
    struct, a map[string]pugjs.Object"""
    k = rng.choice(kinds)
    if k == "map":
        return dict(fields)
    if k == "ptrmap":
        return Ptr(dict(fields))
    if k == "omap":
        return OMap(dict(fields))
    sof = Sof([(n[:1].upper() + n[1:], v) for n, v in fields], rng.choice([0, 0, 7, 60]), rng.randint(0, len(fields)),
              16 + rng.randrange(4), k != "sof")
    return Ptr(sof) if k == "ptrptr" else sof


def gen_own(rng, t, pool):
    w = lambda: rng.choice(WORDS)
    if t == "own/page":
        page = holder(rng, [(b"tags", pool.words()), (b"attrs", pool.obj()), (b"title", w())])
        return {b"page": page, b"name": w(), b"user": rng.choice(USERS)}
    if t == "own/list":
        def it(k):
            if rng.random() < 0.4:
                return pool.record(k)       # the whole record is a converted object
            return holder(rng, [(b"label", w() + b"-%d" % k), (b"tags", pool.words())])
        items = [it(k) for k in range(rng.randint(1, 5))]
        if rng.random() < 0.3:
            items = Objs(items)             # []pugjs.Object instead of []interface{}
        return {b"items": items, b"user": rng.choice(USERS)}
    # own/direct: the page data itself is the record
    extra = holder(rng, [(b"a", pool.words())], ["map", "sofptr", "omap", "ptrmap"])
    return holder(rng, [(b"tags", pool.words()), (b"conf", pool.obj()), (b"extra", extra), (b"name", w())],
                  ["map", "map", "sof", "sofptr", "ptrmap", "omap"])


def data_go08(v):
    """tmpl.data_go plus the struct tags of harness/c08data.go"""
    if isinstance(v, Shared):
        return {"t": "shared", "v": {"id": v.sid, "val": data_go08(v.val)}}
    if isinstance(v, Ptr):
        return {"t": "ptr", "v": data_go08(v.val)}
    if isinstance(v, Objs):
        return {"t": "objs", "v": [data_go08(x) for x in v.items]}
    if isinstance(v, OMap):
        return {"t": "omap", "v": [[hx(k), data_go08(x)] for k, x in v.items.items()]}
    if isinstance(v, Sof):
        return {"t": "sof", "v": {"fields": [[hx(k), data_go08(x)] for k, x in v.fields], "pad": v.pad, "pad_at": v.pad_at,
                                  "fam": v.fam, "ptr": v.ptr}}
    if isinstance(v, Named):
        return {"t": "named", "v": {"idx": v.idx, "ptr": v.ptr, "name": hx(v.name), "qty": v.qty, "tags": [hx(t) for t in v.tags],
                                    "url": hx(v.url), "pid": hx(v.pid), "inner": None if v.inner is None else data_go08(v.inner)}}
    if isinstance(v, list):
        return {"t": "arr", "v": [data_go08(x) for x in v]}
    if isinstance(v, dict):
        return {"t": "map", "v": [[hx(k), data_go08(x)] for k, x in v.items()]}
    return tmpl.data_go(v)


CTX_KEYS = [b"k0", b"k1", b"k2", b"k3", b"none"]
USERS = [b"alice", b"bob", b"carol", b"dave", b"eve", b"<mallory>", b"a&b", b"\xc3\xa9ve", b""]


def gen_ctx(rng, ratelimit, tag):
    """What one job's context carries.  `tag` makes the contexts of one case pairwise different."""
    user = rng.choice(USERS) + (b"#%d" % tag if rng.random() < 0.8 else b"")
    kv = [[hx(k), hx(rng.choice(WORDS) + b"~" + user)] for k in CTX_KEYS[:4] if rng.random() < 0.8]
    # a context that is already over: only without a rate limit (with one, Render's select between the
    # semaphore and ctx.Done() is a coin toss when both are ready, which is outside what is compared here)
    over = ratelimit == 0 and rng.random() < 0.12
    return {"user": hx(user), "num": rng.randint(-50, 5000), "kv": kv, "over": over}


def res_term(r):
    if r["class"] == "ok":
        return b"(inl " + cq_bytes(unhx(r["out"])) + b")"
    return b"(inr %d)" % CLASS_CODE.get(r["class"], 9)


def cq_packed(b):
    """a long byte string packed 7 bytes per primitive integer for Run.Judge_C08.unpack"""
    ws = []
    for i in range(0, len(b), 7):
        ch = b[i:i + 7]
        ws.append(b"%d" % (int.from_bytes(ch, "little") | (1 << (8 * len(ch)))))
    return b"(unpack [" + b";".join(ws) + b"]%uint63)"


def _depth_go(v):
    """objects nested in each other in a harness data value ({"t": "map", "v": [[k, value], ...]})"""
    if v.get("t") == "map":
        return 1 + max([_depth_go(x[1]) for x in v["v"]] or [0])
    if v.get("t") == "arr":
        return max([_depth_go(x) for x in v["v"]] or [0])
    return 0


def shared_routes(v, path=()):
    """(id, route) of every caller-shared converted object in a harness data value; the route names the Go
    containers between the data of the render and the object: map, arr, struct, *struct, ptr, objs, omap"""
    t = v.get("t")
    if t == "shared":
        yield v["v"]["id"], ">".join(path) or "data"
    elif t in ("arr", "objs"):
        for x in v["v"]:
            yield from shared_routes(x, path + (t,))
    elif t in ("map", "omap"):
        for _, x in v["v"]:
            yield from shared_routes(x, path + (t,))
    elif t == "ptr":
        yield from shared_routes(v["v"], path + ("ptr",))
    elif t == "sof":
        for _, x in v["v"]["fields"]:
            yield from shared_routes(x, path + ("*struct" if v["v"]["ptr"] else "struct",))
    elif t == "named" and v["v"].get("inner"):
        yield from shared_routes(v["v"]["inner"], path + ("*named" if v["v"]["ptr"] else "named",))


def flat(ds):
    """the distinct results of one goroutine in one round (older observations: one result, not a list)"""
    return ds if isinstance(ds, list) else [ds]


def steps_needed(r):
    if r["class"] != "ok":
        return 1
    return (len(unhx(r["out"])) + CHUNK - 1) // CHUNK + 1


class C08(Prop):
    id = "C08"
    engine = "C08"
    judge_module = "Run.Judge_C08"
    prop_module = "Props.C08"
    prop_file = "Props/C08.v"
    coq_targets = ["Props/C08.vo", "Run/Judge_C08.vo"]
    needs_race = True
    # one case = one engine and rounds x goroutines x repetitions concurrent renders (quick: about 13 000 renders)
    sizes = {"quick": 56, "thorough": 800}
    shard = 8
    design_ref = "DESIGN.md section 6 C08, section 10"
    rule = ("one case = one production-mode engine with 24 loaded templates (loops, mixins with blocks, variable "
            "mutation, array push/sort, $global, Math/JSON/Object, while/case/attributes, a data-dependent execution "
            "error; three templates ctx/* whose output depends on the CONTEXT of the render through the harness's "
            "context-aware template functions who/cnum/cget/alive/Req.user/Req.plus supplied via Engine.FuncProvider; "
            "four templates opt/*, str/* that go through the engine's rarely used shared helpers: optional members of "
            "list items and of a mixin's `attributes` that are mostly NOT there, members found only by name folding "
            "(Name for name, userID for userid, URL for url), string helpers, number formatting, stripTags, parseInt; "
            "three templates rec/* over STRUCT data; three SERIALISING templates ser/*: the page's data embedded as JSON "
            "four ways (json(), JSON.stringify, printing the object, an object as attribute value), a recursive mixin that "
            "walks a tree as deep as the data is and serialises sub-trees and, from the bottom of the recursion, the whole "
            "page data, a table of rows with nested objects plus a while loop that only counts; three WRITING templates own/* that push "
            "to, sort and assign into the lists and objects they find in their data: members of a record `page`, members of "
            "the records of a list, members of the page data itself), 1-8 distinct jobs (template, data, context: user, number, string "
            "table, sometimes already cancelled), N in {2..32} goroutines (48-128 in the heavy storms) released by a barrier, each call with its own "
            "freshly built data value and its own context value, 2-6 rounds, harness built with -race. Struct data "
            "(harness/c08data.go): values of reflect.StructOf types with 5-408 fields whose extra field is named after "
            "a process-wide epoch, so every round (in warm and cold cases) the renders meet Go types that did not exist "
            "before, all goroutines of the round sharing the round's types; and values (also behind pointers) of 48 "
            "instances of a generic named type with methods, the instance shifted by the round. Six shapes: 'shared' (16% of "
            "the cases, 7-9 of the quick tier's 56; the own/* templates also take part in the mixed and cold storms, there with "
            "30% shared objects): DATA THAT IS SHARED BETWEEN THE CONCURRENT RENDERS AND ALREADY HOLDS OBJECTS OF THE ENGINE'S "
            "MODEL - the caller of the case converted a few values once (pugjs.Convert of lists, of maps, of maps with lists "
            "inside, of whole records: what an application keeps in a cache; harness data tag 'shared': ONE object per id and "
            "case, handed to every render alone and in the storm) and puts the SAME objects into the data of every render; "
            "every render still gets its own outer data value, and the shared object sits in it by value (member of a "
            "map[string]interface{}, element of a slice), as field of a struct value, as field of a struct behind a pointer "
            "or behind a pointer to a pointer, behind a pointer to a map, in a []pugjs.Object, in a map[string]pugjs.Object, "
            "or is the page data's own member when the page data is such a record (struct types from reflect.StructOf as "
            "above); 1-4 jobs draw from one pool of 2 lists, 2 objects and 2 records per case, so the same object is reached "
            "by different templates through different containers, 2-32 goroutines x 1-4 renders x 2-5 rounds; the writing "
            "templates push, sort and assign, so a render that does not own what it writes to shows the writes of the others "
            "(or of the render alone before the storm) in its output, and the renders alone AFTER the storm - given the same "
            "shared objects - show whether the caller's objects still are what they were; coverage.distribution."
            "shared_objects reports the routes (container kinds between the data and the object) by renders, the objects "
            "reached by two or more jobs and the most goroutines on one object. The other five shapes: 'heavy' "
            "(6-7 cases of the quick tier's 56, 1 in 50 of the thorough tier; one corpus witness): MANY renders in flight x "
            "MUCH work per render - 48, 64, 96 or 128 goroutines, rate limit off or far above the default (64, 256), 2-5 "
            "renders each in one round, every render with its own value of deep or large but ordinary data (maps and lists: "
            "chains of 5-14 nested objects with side lists of sub-trees; up to 96 table rows with 3 levels of nested objects; "
            "while loops of up to 4800 iterations; outputs up to about 6 kB) through the ser/* templates, so that whatever a "
            "render counts or limits per call - objects nested in each other inside the encoders, depth of the mixin "
            "recursion, loop iterations, bytes written - is counted in 48-128 renders at the same moment (a render of such "
            "data outlasts the scheduler's time slice under the race detector, so after the first slices all goroutines are "
            "in the middle of a render; coverage.distribution.heavy reports the most renders in flight, the deepest data, the "
            "largest goroutines x depth and the largest sum of outputs in flight); per goroutine the first two distinct "
            "results are kept (two distinct results already show that one is not the result of the render alone); 'ctx' "
            "(about 21%): overlapping renders of the SAME context-dependent template that differ in their context and "
            "partly in their data; 'mixed' (20%): all templates; 'rare' (24%): 8-32 goroutines x 4-20 renders each per "
            "round of the opt/*, str/* and rec/* templates (many renders at once inside the absent-member fallbacks and "
            "helpers); 'cold' (24%, plus 15-25% of the other shapes): NO render precedes the storm in the storm's "
            "process - the harness re-executes itself twice: one fresh process renders every job alone (the baseline "
            "seq), another fresh process runs only the storm and the renders alone after it - so the first use of every "
            "template, Go type (StructOf and named, a new one per round) and helper in that process is made by several "
            "renders at once. Deliberate staggering (85% of ctx, 60% of mixed, 20-30% of rare/cold cases; the rest is a "
            "free-running storm): every provider call, every call of a harness function and the moment between Render "
            "returning its reader and the caller reading it is a stagger point at which the call, following a plan drawn "
            "from the case, passes, yields, or is held until the OTHER renders have passed 1-13 further points (bounded "
            "by 2 ms; released at once when nobody else is running); coverage.distribution.stagger reports "
            "points/holds/released/timeouts and the largest number of renders in flight. Every concurrent result (per "
            "goroutine: every DISTINCT result of its repetitions) is compared with the result of the same (template, "
            "data, context) rendered alone - before the storm, or in the separate fresh process for cold cases - and "
            "alone after the storm; any panic, differing output, race report or dead process is a violation; once the "
            "race detector has reported, the case's storm is cut short. Non-trivial = at least two concurrent calls and "
            "every job rendered alone; distinct by SHA-1 of the case. Small batches (replay, shrinking candidates, final "
            "run of a shrunk witness) are attempted up to 40 times (heavy storms: 3 times) and the first attempt that differs "
            "is the observation. In the case terms outputs of 48 bytes and more are written once per case (a table of "
            "primitive-integer packed strings decoded by Run.Judge_C08.unpack) and schedules run-length encoded (rle); the "
            "judge compares the decoded bytes of every concurrent result with the decoded bytes of the render alone")
    trusted = [
        "PARTIAL: absence of data races is the Go race detector's observation on the code executed by this run "
        "(harness built with -race, GORACE log collected per case and per child process); it is not a theorem",
        "the theorems are about logical interference for step functions that satisfy the footprint discipline "
        "(view_preserved/view_determines, reads_only); that Engine.Render's memory accesses have these footprints "
        "is what the race detector and the output comparison observe",
        "the judge instantiates 'what one render does' with the result observed when the same (template, data, "
        "context) was rendered alone (replay machine, theorem C08_replay_model_is_sequential): on the same engine "
        "before the storm, or - cold cases - on an equally built engine in a separate fresh process, where the struct "
        "types differ from the storm's only in the name of one field that no template reads",
        "context-aware template functions: Models/Sched.v Part 2c models findFunction's bind-per-use (theorems "
        "C08_context_functions_*); struct conversion and the absent-member fallbacks: Part 2d models Map.convert / "
        "Map.Member deriving everything from the call's own value by pure helpers (theorems C08_member*); that the Go "
        "code keeps nothing bound / cached / buffered in shared state is observed by the storms, not proved about the "
        "Go source",
        "the harness's own template functions and stagger points (harness/c08ctx.go), its struct types "
        "(harness/c08data.go: reflect.StructOf, a generic named type with value-receiver methods that only read) and "
        "its self re-execution for cold cases are trusted test code",
        "Go scheduler: the interleavings that occur are whatever the runtime produces on this machine, steered by the "
        "barrier, the stagger plans and the repetitions; the schedule under which the model runs is drawn by the "
        "generator (the theorems hold for every schedule)",
        "data shared between renders: that Engine.Render detaches every object of the engine's model found in its data "
        "(convertData: copy on the way in, through every container kind) is observed by the 'shared' storms on the routes "
        "listed in coverage.distribution.shared_objects (maps, slices, struct values, pointers to structs / maps / "
        "pointers, []pugjs.Object, map[string]pugjs.Object, up to 3 containers deep), by output comparison and the race "
        "detector; Models/SchedOwn.v states the discipline (copy first, then write to the copies) and what follows from it for "
        "every number of renders and every schedule, but that convertWith follows it is not proved, and routes the generator does not build (values returned by the "
        "application's methods and template functions, channels, embedded structs, unexported fields) are not explored; "
        "the harness's store of shared objects (one pugjs.Convert per id and case under a mutex) is trusted test code",
        "state that ADDS UP over concurrent renders (a process-wide counter or budget of nesting depth, recursion depth, "
        "iterations, bytes, in-flight calls): that the Go code keeps every such count per render is observed by the heavy "
        "storms up to the sizes they reach (48-128 renders in flight, data 5-16 objects deep, goroutines x depth of the "
        "order of 1000, about 300 kB of output in flight, up to 128 x 4800 loop iterations; the numbers of a run are "
        "in coverage.distribution.heavy), not proved about the Go source; a "
        "limit that only trips beyond those products is not seen",
        "the case-term encodings (Run.Judge_C08.unpack over Coq's primitive 63-bit integers, rle) are decoding helpers of "
        "the judge; no theorem mentions them; the in-flight counter of the heavy storms is two atomic operations per "
        "Render in the harness (only in those cases: they order renders for the race detector)",
    ]
    assumptions = [
        "data-race freedom of Go memory is observed (race detector on executed code), not proved",
        "claim restricted to loaded templates in production mode (Engine.Debug = false); debug mode reloads on "
        "every Render (C08_debug_mode_reads_only_refuted) and is reported as an observation only",
        "sync.RWMutex provides mutual exclusion as modelled in Models/Sched.v Part 3 (trusted Go runtime)",
        "template functions supplied by the application, and the methods of the application's data types, are "
        "themselves free of cross-call state; the harness's are",
        "an already cancelled context is only used without a rate limit (with one, Render's select between the "
        "semaphore and ctx.Done() is a scheduler coin toss, which is not what C08 compares)",
        "the heavy storms run with the rate limit off or at 64/256: with the default limit of 8 at most 8 renders are "
        "inside the engine at once, and sums over renders in flight stay 16 times smaller",
        "shared page data: the caller shares only objects of the engine's model (results of pugjs.Convert); plain Go maps "
        "and slices shared between concurrent renders are never written by the engine (it converts them into objects of "
        "its own per render) and are not generated; the shared values are lists, maps and records of strings and numbers "
        "converted eagerly (a converted STRUCT, whose members are converted lazily on first access, is only shared in "
        "the per-render containers, not between renders)",
        "first use: what is cold in a cold case is the storm's PROCESS (package-level state of pugjs and of the "
        "libraries below it, Go types, the engine's templates); the operating system's caches are not",
    ]
    not_yet_proved = [
        "the correspondence for context-aware functions and for struct conversion / absent members is by output "
        "comparison only: the judge does not run the Part 2c machine (cstep) or the Part 2d machine (mstep) on the "
        "harness's cases, and no statement about the Go source of findFunction, Map.convert or Map.Member is proved",
        "Part 2d's strings.Title / lowerFirst / upperFirst are modelled on ASCII only, and the shared-caser variant "
        "has one point of interference per lookup where the real helper would have two",
        "shared page data: Models/SchedOwn.v (Part 2e) models convertData as copying every object the data refers to "
        "before the template runs (theorems C08_shared_objects_detached_reads_only, C08_renders_see_only_their_own_"
        "writes; aliasing variant refuted), with objects that are flat lists of numbers and push / print as the only "
        "template operations; the judge does not run that machine (ostep) on the harness's cases - the correspondence "
        "for the shared-object storms is by output comparison (every concurrent result = the render alone, the renders "
        "alone after the storm = before it, on the same shared objects) and the race detector; no statement about the "
        "Go source of convertWith / Object.copy (that the detach flag reaches every route, that copy is deep) is proved",
        "no machine in Models/Sched.v has a counter that several renders add to (a depth / iteration / byte budget kept "
        "process-wide instead of per render): such a step function violates view_preserved, so the interleave theorems "
        "do not apply to it, but the refutation (a guard that trips only under overlap) is not written down as a "
        "theorem; the class is covered by output comparison in the heavy storms only",
    ]

    # ---------------------------------------------------------------- generation
    def generate(self, rng, n, tier):
        cases = []
        # the heavy storms are a few expensive cases: about 1 in 9 of the quick tier, 1 in 50 of the thorough tier
        heavy_share = 0.11 if tier == "quick" else 0.02
        nheavy = int(n * heavy_share + rng.random())      # their number is fixed (6 or 7 of 56), not left to chance
        for i in range(n):
            ratelimit = rng.choice([0, 0, 0, 8, 2])
            kind = 0.0 if i < nheavy else heavy_share + rng.random() * (1 - heavy_share)
            jobs = []
            reps = 1
            cold = False
            job = lambda t, k, d=None: {"tpl": hx(t), "data": data_go08(gen_data(rng, t) if d is None else d),
                                        "ctx": gen_ctx(rng, ratelimit, k)}
            keep = 0
            if kind < heavy_share:
                # HEAVY STORM: far more renders in flight than any small limit (48-128 goroutines, rate limit off
                # or far above the default), each of deep / large but ordinary data through the serialising
                # templates: (renders in flight) x (work per render: nesting depth of the serialised data,
                # recursion depth of the mixin, loop counts, output size) reaches numbers no single render does
                shape = "heavy"
                ratelimit = rng.choice([0, 0, 0, 0, 64, 256])
                njobs = rng.choice([1, 2, 3, 4, 6])
                # one size class per case: deep data, long loops, or both moderately
                style = rng.choice(["deep", "deep", "deep", "long", "both"])
                for k in range(njobs):
                    if style == "long":
                        t = rng.choice(["ser/rows", "ser/rows", "ser/json", "ser/tree"])
                    else:
                        t = rng.choice(["ser/json", "ser/json", "ser/tree", "ser/tree", "ser/rows"])
                    depth = {"deep": rng.randint(5, 14), "long": rng.randint(2, 5), "both": rng.randint(4, 9)}[style]
                    scale = {"deep": rng.randint(1, 3), "long": rng.randint(6, 12), "both": rng.randint(3, 6)}[style]
                    jobs.append(job(t, k, gen_ser(rng, t, depth, scale)))
                if rng.random() < 0.3:      # one ordinary page among them
                    jobs.append(job(rng.choice(["loop", "mixins", "funcs", "opt/list"]), njobs))
                    njobs += 1
                reps = 0       # set below from the number of goroutines
                keep = 2
                cold = rng.random() < 0.15
            elif kind < 0.29:
                # CONTEXT STORM: overlapping renders of one context-dependent template (sometimes two or three)
                # that differ in their context (and sometimes in their data)
                shape = "ctx"
                tpls = rng.sample(CTX_TNAMES, rng.choice([1, 1, 1, 2, 3]))
                njobs = rng.choice([2, 2, 3, 4, 6, 8])
                base = {t: gen_data(rng, t) for t in tpls}
                for k in range(njobs):
                    t = tpls[k % len(tpls)]
                    jobs.append(job(t, k, base[t] if rng.random() < 0.5 else None))   # same data, other context
                cold = rng.random() < 0.15
            elif kind < 0.45:
                # MIXED STORM: all templates, context-dependent or not
                shape = "mixed"
                njobs = rng.choice([1, 2, 3, 4, 6, 8])
                for k in range(njobs):
                    r = rng.random()
                    if r < 0.06:
                        t = "nope/missing"
                    elif r < 0.16:
                        t = "fail"
                    else:
                        t = rng.choice([x for x in TNAMES if x != "fail"])
                    jobs.append(job(t, k))
                cold = rng.random() < 0.2
            elif kind < 0.61:
                # SHARED-OBJECT STORM: the caller converted some values once (pugjs.Convert: a cache) and puts the
                # SAME objects into the data of every render - directly, as members of maps and structs, behind
                # pointers, in []pugjs.Object and map[string]pugjs.Object - and the templates push to, sort and
                # assign into them.  1-4 jobs draw from one pool of shared objects, so the same object is reached
                # through different containers and templates; every render still has its own outer data value
                shape = "shared"
                njobs = rng.choice([1, 2, 2, 3, 4])
                pool = SharedPool(rng, "s", share=rng.choice([1.0, 1.0, 0.7]))
                jobs = [job(t, k, gen_own(rng, t, pool)) for k, t in
                        enumerate(rng.choice(OWN_TNAMES) for _ in range(njobs))]
                if rng.random() < 0.25:     # one page that only reads among them
                    jobs.append(job(rng.choice(["loop", "mixins", "opt/list", "rec/one"]), njobs))
                    njobs += 1
                reps = rng.choice([1, 2, 4])
                cold = rng.random() < 0.2
            elif kind < 0.81:
                # RARE-HELPER STORM: many goroutines x many renders of templates that read members which are not
                # there (optional members, name folding), use string helpers and number formatting; struct data too
                shape = "rare"
                njobs = rng.choice([1, 2, 3, 4, 6])
                pool = RARE_TNAMES * 3 + REC_TNAMES
                jobs = [job(rng.choice(pool), k) for k in range(njobs)]
                reps = rng.choice([4, 8, 12, 20])
                cold = rng.random() < 0.25
            else:
                # COLD STORM: nothing is rendered before the storm in the storm's process; struct data, so that every
                # round the renders meet Go types (and, in round 0, templates) that nobody has used yet
                shape = "cold"
                cold = True
                njobs = rng.choice([1, 1, 2, 2, 3, 4])
                pool = REC_TNAMES * 4 + RARE_TNAMES + [x for x in TNAMES if x != "fail"]
                jobs = [job(rng.choice(pool), k) for k in range(njobs)]
                reps = rng.choice([1, 1, 2, 3])
            if shape == "heavy":
                # a render of deep data costs 2-4 ms (20-30 ms under the race detector, longer than the scheduler's
                # time slice: after the first slices every goroutine is in the middle of a render), so few
                # repetitions are enough and keep a case at about 300 renders (one round)
                ngo = rng.choice([48, 64, 64, 96, 128])
                reps = max(2, 256 // ngo)
            elif shape == "rare":
                ngo = rng.choice([8, 16, 32, 32])
            elif shape == "cold":
                ngo = rng.choice([4, 8, 8, 16, 32])
            elif shape == "shared":
                ngo = rng.choice([2, 4, 8, 8, 16, 32])
            else:
                ngo = rng.choice([2, 2, 8, 8, 8, 32, 32])
            mode = rng.random()
            if mode < 0.2 and shape == "mixed" or mode < 0.4 and shape == "cold":
                calls = [rng.randrange(njobs)] * ngo          # everybody renders the same job
            else:
                calls = [rng.randrange(njobs) for _ in range(ngo)]
                if shape == "ctx":                            # at least two different contexts meet
                    calls[0], calls[1] = 0, 1
            # deliberate staggering inside the harness's template functions (0 = none: free-running storm)
            free = {"ctx": 0.15, "mixed": 0.4, "rare": 0.8, "cold": 0.7, "heavy": 0.7, "shared": 0.6}[shape]
            stagger = 0 if rng.random() < free else rng.randrange(1, 1 << 40)
            rounds = (rng.randint(3, 6) if shape == "cold" else rng.randint(2, 3) if shape == "rare" else
                      1 if shape == "heavy" else rng.randint(2, 5))
            cases.append({"files": FILES, "jobs": jobs, "calls": calls, "rounds": rounds,
                          "debug": False, "ratelimit": ratelimit, "stagger": stagger, "shape": shape,
                          "reps": reps, "cold": cold, "keep": keep, "count": shape == "heavy", "sseed": rng.randrange(1 << 30)})
        # the heavy storms cost seconds each, in the harness and in the judge: at most one per judge shard
        heavy = [c for c in cases if c["shape"] == "heavy"]
        cases = [c for c in cases if c["shape"] != "heavy"]
        step = max(self.shard, (len(cases) + len(heavy)) // max(1, len(heavy)))
        for k, c in enumerate(heavy):
            cases.insert(min(len(cases), k * step), c)
        return cases

    # ---------------------------------------------------------------- running (race detector log, crash isolation)
    def _run_batch(self, binary, cases, tmp, tag):
        prefix = os.path.join(tmp, "race_%s_%d" % (tag, self._seq()))
        env = dict(os.environ, GORACE="halt_on_error=0 exitcode=0 atexit_sleep_ms=0 log_path=%s" % prefix, PV_RACE_LOG=prefix,
                   TMPDIR=tmp)   # the harness's scratch engines die with the check's directory even if it crashes
        slim = [{k: v for k, v in c.items() if k not in ("sseed", "shape")} for c in cases]
        p = subprocess.run([binary, self.engine], input=json.dumps(slim).encode(), capture_output=True,
                           timeout=3000, env=env)
        if p.returncode == 0:
            try:
                return json.loads(p.stdout), None
            except ValueError:
                pass
        return None, (p.stderr.decode(errors="replace")[-3000:] or "exit %d" % p.returncode)

    _n = 0

    def _seq(self):
        C08._n += 1
        return C08._n

    def _run_isolating(self, binary, cases, tmp):
        obss, err = self._run_batch(binary, cases, tmp, "all")
        if obss is None:
            # the process died (e.g. "fatal error: concurrent map writes"): isolate per case
            obss = []
            for c in cases:
                o, err1 = self._run_batch(binary, [c], tmp, "one")
                if o is None:
                    if "harness error" in err1 or "bad input" in err1:
                        raise BuildError("harness run failed (C08)", err1)
                    obss.append({"crashed": True, "stderr": err1, "load": "ok", "seq": [], "seq_after": [],
                                 "conc": [], "races": 0, "go_equal": False, "race_build": True, "procs": 0})
                else:
                    obss.append(o[0])
        return obss

    def run(self, binary, cases, tmp, tier, attempts=None):
        obss = self._run_isolating(binary, cases, tmp)
        # A case is a recipe for histories, not one history: which interleaving happens is the Go scheduler's
        # choice.  Small batches (a replay, the candidates of a shrinking step, the final run of a shrunk witness)
        # are therefore attempted several times, and the observation kept for a case is the first attempt in which
        # anything differed (harness flag go_equal; the verdict is still the Coq judge's, on that observation).
        # The main stream (40+ cases) is attempted once.
        if attempts is None:
            attempts = max(1, min(40, 48 // max(1, len(cases))))
        for k in range(attempts - 1):
            # (a storm of many goroutines costs seconds: three attempts)
            again = [i for i, o in enumerate(obss) if o.get("go_equal") and not o.get("races") and not o.get("crashed")
                     and (k < 2 or not cases[i].get("count"))]
            if not again:
                break
            for i, o in zip(again, self._run_isolating(binary, [cases[i] for i in again], tmp)):
                if not o.get("go_equal") or o.get("races") or o.get("crashed"):
                    obss[i] = o
        for o in obss:
            if not o.get("crashed") and not o.get("race_build"):
                raise BuildError("C08 harness was not built with -race", "")
            if not o.get("crashed") and o.get("load") != "ok":
                raise BuildError("C08 fixed templates do not load", json.dumps(o)[:2000])
        return obss

    # ---------------------------------------------------------------- Gallina term
    def emit(self, case, obs):
        import random as _random
        seq = obs.get("seq") or []
        # long outputs are written once (a table `os`, bound by a let) and named `nth K os []` where they occur: the term stays small
        # when 128 goroutines return the same 5 kB page; what the judge compares are still the bytes Go returned
        pool = {}

        def res_term(r):
            if r["class"] != "ok":
                return b"(inr %d)" % CLASS_CODE.get(r["class"], 9)
            out = unhx(r["out"])
            if len(out) < 48:
                return b"(inl " + cq_bytes(out) + b")"
            return b"(inl (nth %d os []))" % pool.setdefault(out, len(pool))
        rounds = []
        for ri, conc in enumerate(obs.get("conc") or []):
            # one model call per goroutine and DISTINCT result it got in the round (its repetitions that returned
            # the same bytes are one call of the model; a correct engine gives exactly one per goroutine)
            calls, results = [], []
            for j, ds in zip(case["calls"], conc):
                for x in flat(ds):
                    calls.append(j)
                    results.append(x)
            need = [steps_needed(seq[j]) + 1 if j < len(seq) else 2 for j in calls]
            r = _random.Random(case.get("sseed", 0) * 7 + ri)
            style = r.random()
            if style < 0.7 and sum(need) <= 1500:
                sched = [g for g, k in enumerate(need) for _ in range(k)]
                r.shuffle(sched)                      # an arbitrary interleaving, step by step
                runs = []
                for g in sched:
                    if runs and runs[-1][0] == g:
                        runs[-1][1] += 1
                    else:
                        runs.append([g, 1])
            elif style < 0.7:
                # many long renders: an arbitrary interleaving of pieces (every render is cut in up to 4 pieces)
                runs = []
                for g, k in enumerate(need):
                    cuts = sorted(r.sample(range(1, k), min(3, k - 1)))
                    runs += [[g, b - a] for a, b in zip([0] + cuts, cuts + [k])]
                r.shuffle(runs)
            elif style < 0.85:
                runs = [[g, k] for g, k in reversed(list(enumerate(need)))]   # one render at a time, last call first
            else:
                runs = [[g, k] for g, k in enumerate(need)]                   # one render at a time, in call order
            rounds.append(b"{| calls := " + cq_list([cq_pair(cq_nat(j), res_term(x)) for j, x in zip(calls, results)]) +
                          b"; sched := rle " + cq_list([cq_pair(cq_nat(g), cq_nat(k)) for g, k in runs]) + b" |}")
        body = (b"{| seq := " + cq_list([res_term(x) for x in seq]) +
                b"; seq_after := " + cq_list([res_term(x) for x in (obs.get("seq_after") or [])]) +
                b"; rounds := " + cq_list(rounds) +
                b"; races := " + cq_nat(min(obs.get("races", 0), 1000)) +
                b"; crashed := " + cq_bool(bool(obs.get("crashed"))) + b" |}")
        # (ONE let: coqc's time for a chain of lets grows with their number times the size of the term)
        table = cq_list([cq_packed(o) for o, k in sorted(pool.items(), key=lambda kv: kv[1])])
        return b"(let os : list bytes := " + table + b" in\n" + body + b")"

    def model_expr(self):
        return "(map (model_round c) (rounds c), oracle08 c, agree08 c)"

    # ---------------------------------------------------------------- evidence
    def nontrivial(self, case, obs):
        return len(case["calls"]) >= 2 and case["rounds"] >= 1 and len(obs.get("seq") or []) == len(case["jobs"])

    def sample(self, case, obs):
        return {"goroutines": len(case["calls"]), "rounds": case["rounds"], "ratelimit": case["ratelimit"],
                "shape": case.get("shape", "corpus"), "staggered": bool(case.get("stagger")),
                "cold": bool(case.get("cold")), "renders_per_goroutine_and_round": max(1, case.get("reps", 1)),
                "stagger": obs.get("stagger"),
                "jobs": [unhx(j["tpl"]).decode() for j in case["jobs"]], "calls": case["calls"][:16],
                "contexts": [{"user": unhx(j["ctx"]["user"]).decode("utf-8", "replace"), "num": j["ctx"]["num"],
                              "over": j["ctx"]["over"]} for j in case["jobs"] if j.get("ctx")][:8],
                "sequential_classes": [r["class"] for r in (obs.get("seq") or [])],
                "first_sequential_output": (unhx(obs["seq"][0]["out"]).decode("utf-8", "replace")[:200]
                                            if obs.get("seq") else None),
                "go_all_equal": obs.get("go_equal"), "race_reports": obs.get("races"),
                "renders_in_flight": obs.get("in_flight"),
                "gomaxprocs": obs.get("procs")}

    def distribution(self, cases, obss):
        d = {"goroutines": {}, "concurrent_renders": 0, "sequential_renders": 0, "templates": {}, "job_classes": {},
             "race_reports": 0, "crashed": 0, "go_unequal_cases": 0, "ratelimit": {}, "race_build": True, "gomaxprocs": 0,
             "shapes": {}, "staggered_cases": 0, "context_dependent_renders": 0, "cancelled_context_renders": 0,
             "rounds_with_same_template_under_different_contexts": 0,
             "stagger": {"points": 0, "holds": 0, "released": 0, "timeouts": 0, "max_inside": 0},
             "renders_per_goroutine_and_round": {}, "cold_cases": 0, "cold_concurrent_renders": 0,
             "cold_first_rounds_renders": 0, "rounds_with_struct_types_new_to_the_process": 0,
             "renders_of_struct_data": 0, "renders_through_rare_helpers": 0, "largest_struct_fields": 0,
             "heavy": {"cases": 0, "concurrent_renders": 0, "goroutines": {}, "most_renders_in_flight": 0,
                       "deepest_serialised_data": 0, "largest_goroutines_x_depth": 0, "largest_output_bytes": 0,
                       "largest_sum_of_outputs_in_flight_bytes": 0, "most_loop_iterations_per_render": 0,
                       "renders_through_serialising_templates": 0, "distinct_results_dropped": 0},
             "shared_objects": {"cases": 0, "concurrent_renders_holding_one": 0, "renders_of_writing_templates": 0,
                                "objects": 0, "objects_reached_by_two_or_more_jobs": 0,
                                "most_goroutines_on_one_object": 0, "routes": {}}}
        for c, o in zip(cases, obss):
            sh = c.get("shape", "corpus")
            d["shapes"][sh] = d["shapes"].get(sh, 0) + 1
            d["staggered_cases"] += bool(c.get("stagger"))
            nr = len(o.get("conc") or [])
            by_tpl = {}
            for g in c["calls"]:
                j = c["jobs"][g]
                if unhx(j["tpl"]).startswith(b"ctx/"):
                    d["context_dependent_renders"] += nr
                    by_tpl.setdefault(j["tpl"], set()).add(json.dumps(j.get("ctx"), sort_keys=True))
                if (j.get("ctx") or {}).get("over"):
                    d["cancelled_context_renders"] += nr
            if any(len(v) > 1 for v in by_tpl.values()):
                d["rounds_with_same_template_under_different_contexts"] += nr
            st = o.get("stagger") or {}
            for k in ("points", "holds", "released", "timeouts"):
                d["stagger"][k] += st.get(k, 0)
            d["stagger"]["max_inside"] = max(d["stagger"]["max_inside"], st.get("max_inside", 0))
            n = str(len(c["calls"]))
            d["goroutines"][n] = d["goroutines"].get(n, 0) + 1
            nconc = sum(x.get("n", 1) for conc in (o.get("conc") or []) for ds in conc for x in flat(ds))
            d["concurrent_renders"] += nconc
            d["sequential_renders"] += 2 * len(c["jobs"])
            reps = max(1, c.get("reps", 1))
            d["renders_per_goroutine_and_round"][str(reps)] = d["renders_per_goroutine_and_round"].get(str(reps), 0) + 1
            if sh == "heavy" or c.get("count"):
                h = d["heavy"]
                h["cases"] += 1
                h["concurrent_renders"] += nconc
                h["goroutines"][n] = h["goroutines"].get(n, 0) + 1
                h["most_renders_in_flight"] = max(h["most_renders_in_flight"], o.get("in_flight", 0))
                h["distinct_results_dropped"] += o.get("dropped", 0)
                dep = [_depth_go(j["data"]) for j in c["jobs"]]
                h["deepest_serialised_data"] = max([h["deepest_serialised_data"]] + dep)
                h["largest_goroutines_x_depth"] = max(h["largest_goroutines_x_depth"],
                                                      sum(dep[g] for g in c["calls"]))
                outs = [len(r.get("out", "")) // 2 for r in (o.get("seq") or [])]
                if outs:
                    h["largest_output_bytes"] = max(h["largest_output_bytes"], max(outs))
                    h["largest_sum_of_outputs_in_flight_bytes"] = max(h["largest_sum_of_outputs_in_flight_bytes"],
                                                                      sum(outs[g] for g in c["calls"] if g < len(outs)))
                its = [int(x) for j in c["jobs"] for x in __import__("re").findall(r'"7370696e", \{"t": "int", "v": (\d+)', json.dumps(j["data"]))]
                h["most_loop_iterations_per_render"] = max([h["most_loop_iterations_per_render"]] + its)
                h["renders_through_serialising_templates"] += reps * nr * sum(
                    unhx(c["jobs"][g]["tpl"]).startswith(b"ser/") for g in c["calls"])
            routes = [list(shared_routes(j["data"])) for j in c["jobs"]]
            d["shared_objects"]["renders_of_writing_templates"] += reps * nr * sum(
                unhx(c["jobs"][g]["tpl"]).startswith(b"own/") for g in c["calls"])
            if any(routes):
                so = d["shared_objects"]
                so["cases"] += 1
                so["concurrent_renders_holding_one"] += reps * nr * sum(bool(routes[g]) for g in c["calls"])
                users, jobs_of = {}, {}
                for g in c["calls"]:
                    for sid, rt in set(routes[g]):
                        so["routes"][rt] = so["routes"].get(rt, 0) + reps * nr
                    for sid in set(sid for sid, _ in routes[g]):
                        users[sid] = users.get(sid, 0) + 1
                        jobs_of.setdefault(sid, set()).add(g)
                so["objects"] += len(users)
                so["objects_reached_by_two_or_more_jobs"] += sum(len(v) > 1 for v in jobs_of.values())
                so["most_goroutines_on_one_object"] = max([so["most_goroutines_on_one_object"]] + list(users.values()))
            if c.get("cold"):
                d["cold_cases"] += 1
                d["cold_concurrent_renders"] += nconc
                d["cold_first_rounds_renders"] += sum(x.get("n", 1) for ds in ((o.get("conc") or [[]])[0]) for x in flat(ds))
            st_types = sum(json.dumps(c["jobs"][g]["data"]).count('"sof"') + json.dumps(c["jobs"][g]["data"]).count('"named"') > 0
                           for g in c["calls"])
            if st_types:
                d["rounds_with_struct_types_new_to_the_process"] += nr
                d["renders_of_struct_data"] += st_types * nr * reps
            for g in c["calls"]:
                tn = unhx(c["jobs"][g]["tpl"]).decode()
                if tn in RARE_TNAMES:
                    d["renders_through_rare_helpers"] += nr * reps
            pads = [int(x) for j in c["jobs"] for x in __import__("re").findall(r'"pad": (\d+)', json.dumps(j["data"]))]
            if pads:
                d["largest_struct_fields"] = max(d["largest_struct_fields"], max(pads) + 8)
            for g in c["calls"]:
                t = unhx(c["jobs"][g]["tpl"]).decode()
                d["templates"][t] = d["templates"].get(t, 0) + c["rounds"]
            for r in (o.get("seq") or []):
                d["job_classes"][r["class"]] = d["job_classes"].get(r["class"], 0) + 1
            d["race_reports"] += o.get("races", 0)
            d["crashed"] += bool(o.get("crashed"))
            d["go_unequal_cases"] += not o.get("go_equal")
            rl = str(c["ratelimit"])
            d["ratelimit"][rl] = d["ratelimit"].get(rl, 0) + 1
            d["race_build"] = d["race_build"] and bool(o.get("race_build"))
            d["gomaxprocs"] = max(d["gomaxprocs"], o.get("procs", 0))
        return d

    # ---------------------------------------------------------------- shrinking
    def shrink(self, case):
        calls, jobs = case["calls"], case["jobs"]
        if case.get("count"):
            # a storm of many goroutines: what it shows needs the many, and every candidate costs seconds - a few
            # bold steps only (one round of two renders each, everybody renders the deepest data, half the goroutines)
            used = sorted(set(calls))
            if len(used) < len(jobs):
                remap = {j: i for i, j in enumerate(used)}
                yield dict(case, jobs=[jobs[j] for j in used], calls=[remap[j] for j in calls])
                return
            if case["rounds"] > 1 or case.get("reps", 1) > 2 or case.get("stagger") or case.get("cold"):
                yield dict(case, rounds=1, reps=min(2, case.get("reps", 1)), stagger=0, cold=False)
            if len(used) > 1:
                deepest = max(used, key=lambda j: _depth_go(jobs[j]["data"]))
                yield dict(case, calls=[deepest] * len(calls))
            if len(calls) > 16:
                yield dict(case, calls=calls[:len(calls) // 2])
            return
        if not case.get("stagger"):
            # a free-running storm: first try the same case with deliberate staggering, which makes the
            # overlaps (and so the witness) far more repeatable
            yield dict(case, stagger=(case.get("sseed", 0) << 8) | 1)
        if case.get("reps", 1) > 1:
            yield dict(case, reps=1)
            yield dict(case, reps=case["reps"] // 2)
        if case["rounds"] > 1:
            yield dict(case, rounds=1)
            yield dict(case, rounds=case["rounds"] - 1)
        if len(calls) > 2:
            yield dict(case, calls=calls[:len(calls) // 2])
            yield dict(case, calls=calls[len(calls) // 2:])
            yield dict(case, calls=calls[:-1])
        used = sorted(set(calls))
        if len(used) < len(jobs):   # drop unused jobs
            remap = {j: i for i, j in enumerate(used)}
            yield dict(case, jobs=[jobs[j] for j in used], calls=[remap[j] for j in calls])
        for j in used:              # everybody renders one job
            if len(used) > 1:
                yield dict(case, calls=[j] * len(calls))
        if case["ratelimit"]:
            yield dict(case, ratelimit=0)

    # ---------------------------------------------------------------- debug mode: observed, not judged
    def extra(self, binary, tmp, tier, rng, ev):
        n = 6 if tier == "quick" else 60
        # (not the heavy storms: in debug mode each of their 48-128 goroutines would reload every template per render)
        cases = [c for c in self.generate(rng, n, tier) if c["shape"] != "heavy"]
        for c in cases:
            c["debug"] = True
            c["reps"] = 1        # every debug-mode render reloads the templates
            c["cold"] = False
        obs = {"cases": 0, "concurrent_renders": 0, "unequal_renders": 0, "race_reports": 0, "crashed": 0,
               "first_race_report": None, "unequal_classes": {}}
        try:
            obss = self.run(binary, cases, tmp, tier, attempts=1)
        except BuildError as e:
            obs["error"] = e.what
            obss = []
        for c, o in zip(cases, obss):
            obs["cases"] += 1
            obs["crashed"] += bool(o.get("crashed"))
            obs["race_reports"] += o.get("races", 0)
            if o.get("race_report") and not obs["first_race_report"]:
                obs["first_race_report"] = o["race_report"][:2500]
            for conc in (o.get("conc") or []):
                for g, ds in zip(c["calls"], conc):
                    for r in flat(ds):
                        obs["concurrent_renders"] += r.get("n", 1)
                        s = o["seq"][g]
                        if r["class"] != s["class"] or r["out"] != s["out"]:
                            obs["unequal_renders"] += r.get("n", 1)
                            k = "%s->%s" % (s["class"], r["class"])
                            obs["unequal_classes"][k] = obs["unequal_classes"].get(k, 0) + 1
        obs["note"] = ("debug mode (Engine.Debug = true) reloads templates on every Render; outside C08's claim "
                       "(see C10); reported, never judged")
        ev["coverage"]["debug_mode_observation"] = obs
        return []


PROP = C08()
