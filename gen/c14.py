# C14 — stripTags emits only allow-listed tags/attributes; all else becomes inert text.
import math

from common import *

ORDINARY = ["p", "a", "b", "i", "br", "img", "div", "span", "ul", "li", "h1", "table", "tr", "td",
            "th", "tbody", "em", "strong", "hr", "input", "form", "select", "option", "button",
            "pre", "code", "blockquote", "font", "nobr", "center", "dl", "dd", "x-foo", "col",
            "caption", "wbr", "label"]
RAWTEXT = ["script", "style", "textarea", "title", "xmp", "noscript", "noframes", "noembed",
           "iframe", "plaintext"]
FOREIGN = ["svg", "math", "foreignObject", "desc", "mi", "mtext", "mo", "annotation-xml", "g",
           "circle", "use", "mglyph", "malignmark"]
STRUCT = ["html", "head", "body", "template", "frameset", "base", "meta", "link"]
ATTRS = ["href", "title", "src", "alt", "class", "id", "style", "onclick", "onerror", "data-x",
         "xlink:href", "xml:lang", "hidden", "disabled", "width", "encoding", "definitionurl",
         "target", "name", "value"]
ALLOW_ELEMS = ["p", "a", "b", "i", "br", "img", "div", "span", "ul", "li", "h1", "table", "tr",
               "td", "th", "tbody", "em", "strong", "hr", "pre", "svg", "math", "body", "html",
               "head", "x-foo", "font", "col", "wbr", "input", "form", "desc", "mi", "g"]
ALLOW_ATTRS = ["href", "title", "src", "alt", "class", "id", "style", "onclick", "data-x", "hidden",
               "width", "xlink:href", "target", "name", "encoding", "lang", "type", "role"]

WORDS = [b"hello", b"x", b" ", b"a b", b"1 < 2", b"a > b", b"R&D", b"\"q\"", b"it's", b"\r", b"\r\n",
         b"\n", b"\t", b"\x00", b"\xc3\xa9", b"\xe2\x82\xac", b"\xf0\x9f\x98\x80", b"\xff", b"\xc3",
         b"\xed\xa0\x80", b"=", b"/", b"`", b";", b"alert(1)", b"javascript:alert(1)", b"]]>", b"--", b"-->",
         b"\x0c", b"\x0b", b"\x7f", b"\x1b"]
ENTITIES = [b"&amp;", b"&lt;", b"&gt;", b"&quot;", b"&#34;", b"&#39;", b"&apos;", b"&#60;", b"&#x3c;",
            b"&#x3C;", b"&lt", b"&amp", b"&LT;", b"&notanentity;", b"&#0;", b"&#x110000;", b"&#13;",
            b"&#xd;", b"&nbsp;", b"&eacute;", b"&", b"&#", b"&#x", b"&;", b"&amp;lt;", b"&amp;amp;lt;",
            b"&amp;#60;", b"&#38;lt;", b"&NotEqualTilde;", b"&#128;", b"&#x80;"]
ENC_MARKUP = [b"&lt;script&gt;alert(1)&lt;/script&gt;", b"&amp;lt;script&amp;gt;", b"&#60;img src=x onerror=e&#62;",
              b"&lt;a href=&quot;x&quot;&gt;", b"&lt;!--c--&gt;", b"&#x3c;b&#x3e;", b"&lt;p&gt;t&lt;/p&gt;",
              b"&amp;amp;lt;b&amp;amp;gt;", b"&lt;br /&gt;", b"&lt;/p&gt;"]
ATTR_VALS = [b"", b"x", b"a b", b"http://e.x/?a=1&b=2", b"javascript:alert(1)", b"a\"b", b"a'b", b"a<b", b"a>b",
             b"&quot;", b"&#34; onclick=e", b"&lt;script&gt;", b"&amp;lt;", b"\" onclick=\"e", b"' onx='", b"\r", b"a\r\nb",
             b"\xc3\xa9", b"\xff", b"\x00", b"`", b"=", b"/", b"x/", b"&", b"&amp", b">\"<", b"--", b"a\tb", b"a\nb"]
HOT = b"<>&\"'/= !-?[]();#\r\n\t\x00abpxAB"


def _case(s, rng):
    m = rng.random()
    if m < 0.75:
        return s
    if m < 0.9:
        return s.upper()
    return "".join(ch.upper() if rng.random() < 0.5 else ch for ch in s)


class Gen:
    """Grammar of mostly-valid and deliberately broken HTML fragments."""

    def __init__(self, rng, names, fav_attrs=()):
        self.rng = rng
        self.names = names           # element names that the allow-list mentions (favoured)
        self.fav_attrs = list(fav_attrs)   # attribute names that the allow-list mentions (favoured)

    def name(self):
        r = self.rng
        m = r.random()
        if m < 0.45 and self.names:
            return r.choice(self.names)
        if m < 0.7:
            return r.choice(ORDINARY)
        if m < 0.82:
            return r.choice(RAWTEXT)
        if m < 0.93:
            return r.choice(FOREIGN)
        return r.choice(STRUCT)

    def attr(self):
        r = self.rng
        k = _case(r.choice(self.fav_attrs) if self.fav_attrs and r.random() < 0.5 else r.choice(ATTRS), r).encode()
        v = r.choice(ATTR_VALS)
        if r.random() < 0.2:
            v = v + r.choice(ENTITIES + ENC_MARKUP)
        st = r.random()
        if st < 0.35:
            return k + b'="' + v.replace(b'"', b"&quot;" if r.random() < 0.7 else b'"') + b'"'
        if st < 0.55:
            return k + b"='" + v.replace(b"'", b"&#39;" if r.random() < 0.7 else b"'") + b"'"
        if st < 0.7:
            return k + b"=" + (v.replace(b" ", b"") or b"x")
        if st < 0.82:
            return k
        if st < 0.88:
            return k + b"="
        if st < 0.94:
            return k + b" = \"" + v + b"\""
        return k + b'=""'

    def attrs(self):
        r = self.rng
        n = r.choice([0, 0, 0, 1, 1, 2, 3, 5])
        parts = [self.attr() for _ in range(n)]
        if n >= 2 and r.random() < 0.2:
            parts.append(parts[0])                      # duplicate attribute
        sep = b" " if r.random() < 0.85 else r.choice([b"", b"/", b"\n", b"\t ", b"  "])
        s = sep.join(parts)
        if parts and r.random() < 0.95:
            s = b" " + s
        return s

    def text(self):
        r = self.rng
        m = r.random()
        if m < 0.5:
            return r.choice(WORDS)
        if m < 0.75:
            return r.choice(ENTITIES)
        if m < 0.9:
            return r.choice(ENC_MARKUP)
        return bytes(r.choice(HOT) for _ in range(r.randint(1, 6)))

    def node(self, depth):
        r = self.rng
        m = r.random()
        if m < 0.3 or depth > 5:
            return self.text()
        if m < 0.72:
            n = self.name()
            open_ = b"<" + _case(n, r).encode() + self.attrs() + (b"/" if r.random() < 0.07 else b"") + b">"
            inner = self.nodes(depth + 1, r.choice([0, 1, 1, 2, 3]))
            if n in RAWTEXT and r.random() < 0.6:
                inner = r.choice([b"<b>x</b>", b"alert(1)", b"</" + n.encode()[:3], b"<!--", b"&lt;b&gt;",
                                  b"x</script >y", b"</p>", b"<![CDATA[x]]>"]) + (inner if r.random() < 0.3 else b"")
            cl = r.random()
            if cl < 0.7:
                close = b"</" + _case(n, r).encode() + b">"
            elif cl < 0.85:
                close = b""                                   # unclosed
            elif cl < 0.93:
                close = b"</" + self.name().encode() + b">"   # mis-nested
            else:
                close = b"</" + n.encode() + r.choice([b" x=y>", b"/>", b" >", b""])
            return open_ + inner + close
        if m < 0.79:
            return b"<!--" + r.choice([b"c", b"", b">", b"->", b"-", b"<b>x</b>", b"--!>x", b"[if IE]><b>x<![endif]",
                                       b"&lt;", b"\x00"]) + r.choice([b"-->", b"-->", b"--!>", b"", b"--", b"->"])
        if m < 0.83:
            return r.choice([b"<![CDATA[", b"<![cdata["]) + r.choice([b"x", b"<b>y</b>", b"]]", b"&lt;"]) + r.choice([b"]]>", b""])
        if m < 0.9:
            return r.choice([b"<!x>", b"<?x>", b"<?xml version=\"1.0\"?>", b"<!DOCTYPE html>", b"<!doctype html PUBLIC \"a\" 'b'>",
                             b"<!>", b"<!-->", b"</>", b"</ x>", b"<%x%>", b"<!ELEMENT b>", b"<!doctype", b"</#>", b"<?", b"<!"])
        if m < 0.95:
            return b"</" + _case(self.name(), r).encode() + b">"      # stray end tag
        return r.choice([b"<", b"< ", b"<1", b"<a", b"<a b", b"<a b=", b"<a b=\"", b"<a b='c", b"</", b"</a", b"<a/", b"<<b>",
                         b"<b<i>", b"<b\x00c>", b"<\xff>", b"<a \x00=x>", b"<a =x>", b"<a x=y=z>", b"<a \"x\"=1>"])

    def nodes(self, depth, n):
        return b"".join(self.node(depth) for _ in range(n))


INTEGRATION = [
    b"<svg><foreignObject><p>t</p><b x=1>u</foreignObject><a href=h>v</a></svg>",
    b"<math><mi><b>t</b></mi><annotation-xml encoding=\"text/html\"><p>u</p></annotation-xml><a xlink:href=j>w</a></math>",
    b"<svg><desc><b>t</b></desc><title><i>u</i></title><script>x<b>y</script></svg>",
    b"<svg><![CDATA[<b>t</b>]]><p>out</p></svg>",
    b"<math><mtext><b>t</b><mglyph><i>u</i></mtext><p>v",
    b"<svg><a xlink:href=\"javascript:alert(1)\" href='k' XLINK:title=t>q</a><font color=red>f</svg>",
    b"<table><b>foster<tr><td>c<p>d</table><caption>e",
    b"<select><b>x</b><option>y<p>z</select><template><td>q</td><b>r</template>",
    b"<b><p>x</b>y</p><i><div>1</i>2</div>",
    b"<a href=1><a href=2>nested</a></a><nobr><nobr>x</nobr></nobr>",
    b"<p>1<table><p>2</table><frameset><frame></frameset>",
    b"<noscript><p title=\"</noscript><img src=x onerror=e>\"></noscript>",
    b"<textarea></textarea><b>x</b></textarea><title>&lt;b&gt;</title>",
    b"<body class=z onload=e><html lang=en><head><base href=//x><meta charset=u></head>t",
    b"<plaintext><b>never</b> closed",
    b"<iframe><b>x</b></iframe><noembed><i>y</i></noembed><xmp><u>z</u></xmp>",
    b"<style><!-- </style><b>x</b> --></style>",
    b"<script><!--<script></script><b>x</b>--></script><i>y</i>",
    b"<img src=x alt='a\"b' onerror=e><br clear=all/><hr><input value=\"<b>\" disabled><wbr>",
    b"<p/><div/>x<br></br></p>",
]


def gen_input(rng, names, fav_attrs=(), items=None):
    g = Gen(rng, names, fav_attrs)
    m = rng.random()
    with_attrs = [it["s"].lower() for it in items or [] if "s" in it and b"(" in it["s"] and it["s"][:1].isalpha()]
    if m < 0.03 and with_attrs:
        # foreign content: attributes the parser puts into a namespace (xlink:href, xml:lang, xmlns:xlink, ...) on an
        # element whose allow-list entry names the bare attribute; cleanTags sees the bare local name as the key
        adjustable = (b"href", b"title", b"type", b"role", b"show", b"actuate", b"arcrole", b"lang", b"space", b"xlink")
        def attrs_of(d):
            return [a for a in d[d.index(b"(") + 1:].rstrip(b")").split(b" ") if a]
        good = [d for d in with_attrs if any(a in adjustable for a in attrs_of(d))]
        d = rng.choice(good if good and rng.random() < 0.9 else with_attrs)
        el = d[:d.index(b"(")]
        own = attrs_of(d) or [b"href"]
        if any(a in adjustable for a in own) and rng.random() < 0.8:
            own = [a for a in own if a in adjustable]
        def ns(a):
            a = a.split(b":")[-1]
            q = rng.random()
            if q < 0.7:
                pre = b"xml:" if a in (b"lang", b"space", b"base") else b"xmlns:" if a == b"xlink" else b"xlink:"
            else:
                pre = rng.choice([b"xlink:", b"xml:", b"xmlns:", b"XLINK:", b""])
            return pre + a
        ats = b" ".join(ns(rng.choice(own)) + rng.choice([b"", b"=x", b'="a&amp;b"', b"='javascript:alert(1)'"])
                        for _ in range(rng.choice([1, 2, 3])))
        s = (rng.choice([b"<svg>", b"<math>", b"<svg><g>", b"<math><mrow>", b"<svg><foreignObject>", b"<svg><a>"]) +
             b"<" + el + b" " + ats + b">" + g.text() + rng.choice([b"", b"</" + el + b">", b"</svg>"]) + g.nodes(3, rng.choice([0, 1])))
        kind = "foreign_ns"
    elif m < 0.62:
        s = g.nodes(0, rng.choice([1, 2, 2, 3, 4, 6]))
        kind = "grammar"
    elif m < 0.72:
        s = rng.choice(INTEGRATION)
        if rng.random() < 0.5:
            s = g.nodes(2, 1) + s + g.nodes(2, 1)
        kind = "integration"
    elif m < 0.9:
        s = bytearray(g.nodes(0, rng.choice([2, 3, 4])) if rng.random() < 0.7 else rng.choice(INTEGRATION))
        for _ in range(rng.randint(1, 5)):
            op = rng.random()
            pos = rng.randrange(len(s) + 1)
            if op < 0.3 and s:
                del s[pos % len(s)]
            elif op < 0.6:
                s.insert(pos, rng.choice(HOT))
            elif op < 0.7:
                s.insert(pos, rng.randrange(256))
            elif op < 0.8 and s:
                s[pos % len(s)] ^= 1 << rng.randrange(8)
            elif op < 0.9 and s:
                a = rng.randrange(len(s))
                b = min(len(s), a + rng.randint(1, 12))
                s[pos:pos] = s[a:b]
            else:
                del s[pos:]
        s = bytes(s)
        kind = "mutated"
    elif m < 0.96:
        s = bytes(rng.choice(HOT) for _ in range(rng.randint(0, 60)))
        kind = "hot_bytes"
    else:
        s = bytes(rng.randrange(256) for _ in range(rng.randint(0, 60)))
        kind = "random_bytes"
    return s[:300], kind


# ---- the deep / large stream -------------------------------------------------------------------
# The property is stated for every input string: what comes out must not depend on how deep, how
# wide or how long the input is.  This stream draws sizes log-uniformly over two to three orders of
# magnitude (so that any threshold a size- or depth-triggered shortcut might use lies inside the
# range with a good probability per case) and puts the material that must stay inert
# (entity-encoded markup, quotes, ampersands, attributes) at the bottom AND at intermediate depths.
# html.ParseFragment of x/net v0.27 has no nesting limit (measured: 10^6 nested <b> parse in 1.3 s;
# elements with scope checks such as <div> are quadratic: 10^4 levels 0.6 s, 10^5 levels 77 s;
# cleanTags itself dies of Go's 1 GB stack limit between 10^6 and 5*10^6 levels), so the bounds
# below are budgets, not limits of the parser.

# elements that really nest when repeated (the tree gets as deep as the input)
NEST_INLINE = ["b", "i", "em", "strong", "span", "font", "code", "label", "x-foo", "u", "small", "big", "s", "tt"]
NEST_BLOCK = ["div", "ul", "dl", "blockquote", "center", "pre", "ol", "section", "fieldset", "article"]
NEST_FOREIGN = ["g", "svg", "desc", "mi", "math", "circle", "use"]
# elements that do not nest in themselves (the parser closes the previous one): long sibling runs
NEST_NOT = ["p", "a", "li", "td", "h1", "button", "nobr", "option", "form", "tr"]
DEPTH_MAX = {"quick": 5000, "thorough": 40000}
DEPTH_MAX_BLOCK = {"quick": 5000, "thorough": 9000}     # quadratic in the parser
ATTRS_MAX = {"quick": 4000, "thorough": 20000}
TEXT_MAX = {"quick": 60000, "thorough": 400000}
WIDE_MAX = {"quick": 4000, "thorough": 20000}
DEEP_SHARE = {"quick": 0.10, "thorough": 0.01}
HISTORY_SHARE = 0.06
# up to this many bytes of Gallina text the forest is handed to the model (measured: about
# 10 us per byte of term in coqc 8.16 under load, linear now that the judge's model and checker
# are); above it the case is judged by the oracle on Go's output and the text projection only
MODEL_LIMIT = 90000


def logu(rng, lo, hi):
    return int(round(math.exp(rng.uniform(math.log(lo), math.log(hi)))))


def payload(rng, g):
    """Material that must come out inert, plus sometimes a small ordinary subtree."""
    parts = []
    for _ in range(rng.choice([1, 1, 2, 3, 4])):
        m = rng.random()
        if m < 0.35:
            parts.append(rng.choice(ENC_MARKUP))
        elif m < 0.55:
            parts.append(rng.choice(ENTITIES))
        elif m < 0.75:
            parts.append(rng.choice([b"R&D", b"\"q\"", b"it's", b"1 < 2", b"a > b", b"&", b"'", b"\"", b"a&b=c&d",
                                     b"x\ry", b"&lt;img src=x onerror=alert(1)&gt;", b"&amp;lt; &quot;q&quot;"]))
        elif m < 0.9:
            parts.append(g.nodes(4, rng.choice([1, 2])))
        else:
            parts.append(rng.choice(WORDS))
    return b"".join(parts)


def deep_nest(rng, g, names, tier):
    allowed = [n for n in names if n in NEST_INLINE + NEST_BLOCK + NEST_FOREIGN]
    mode = rng.choice(["uniform", "uniform", "runs", "mixed", "chain"])
    pool_kind = rng.random()
    if allowed and pool_kind < 0.45:
        pool = allowed                               # allow-listed elements nest: tags at every level of the result
    elif pool_kind < 0.85:
        pool = rng.sample(NEST_INLINE + NEST_BLOCK, 3) + allowed[:2]
    else:
        pool = rng.sample(NEST_INLINE + NEST_BLOCK + NEST_FOREIGN + NEST_NOT, 4)
    inline_only = all(n in NEST_INLINE for n in pool)
    d = logu(rng, 80, DEPTH_MAX[tier] if inline_only else DEPTH_MAX_BLOCK[tier])
    if mode == "uniform":
        el = rng.choice(pool)
        seq = [el] * d
    elif mode == "runs":
        seq = []
        while len(seq) < d:
            seq += [rng.choice(pool)] * logu(rng, 1, max(2, d // 2))
        seq = seq[:d]
    elif mode == "mixed":
        seq = [rng.choice(pool) for _ in range(d)]
    else:
        unit = rng.choice([["ul", "li"], ["table", "tr", "td"], ["dl", "dd"], ["svg", "g"], ["div", "p"],
                           ["table", "tbody", "tr", "td", "div"], ["math", "mi", "span"], ["svg", "foreignObject", "div"],
                           ["select", "option"], ["a", "div"], ["button", "div"]])
        seq = (unit * (d // len(unit) + 1))[:d]
    p_attr = rng.choice([0.0, 0.0, 0.02, 0.3, 1.0])
    if p_attr > 0.2 and d > 2500:
        p_attr = 0.02
    marks = set(rng.sample(range(1, d), min(d - 1, rng.choice([0, 0, 1, 2, 4, 8]))))   # payload on the way down
    upmarks = set(rng.sample(range(1, d), min(d - 1, rng.choice([0, 0, 1, 3]))))       # ... and on the way up
    out = []
    for lvl, el in enumerate(seq):
        if lvl in marks:
            out.append(payload(rng, g))
        nm = _case(el, rng).encode() if rng.random() < 0.02 else el.encode()
        out.append(b"<" + nm + (g.attrs() if rng.random() < p_attr else b"") + b">")
    out.append(payload(rng, g))
    if rng.random() < 0.9:                          # the bottom always carries something that needs escaping
        out.append(rng.choice(ENC_MARKUP + [b"&amp;", b"&quot;", b"&#39;", b"&lt;", b"\"", b"'", b"R&D"]))
    cl = rng.random()
    if cl < 0.7:
        closes = range(d - 1, -1, -1)
    elif cl < 0.82:
        closes = []                                  # everything left open
    elif cl < 0.92:
        closes = range(d - 1, rng.randrange(d), -1)  # only the innermost levels are closed
    else:
        closes = range(d)                            # closed in the wrong order
    for lvl in closes:
        out.append(b"</" + seq[lvl].encode() + b">")
        if lvl in upmarks:
            out.append(payload(rng, g))
    s = b"".join(out)
    if rng.random() < 0.3:
        s = g.nodes(3, 1) + s + g.nodes(3, 1)
    return s, "deep_nest"


def long_attrs(rng, g, names, fav, tier):
    n = logu(rng, 40, ATTRS_MAX[tier])
    el = rng.choice(names) if names and rng.random() < 0.7 else rng.choice(ORDINARY)
    parts = []
    for i in range(n):
        m = rng.random()
        if m < 0.5:
            parts.append(g.attr())
        elif m < 0.8:
            k = rng.choice([b"data-", b"on", b"x", b"aria-"]) + str(rng.randrange(n)).encode()
            v = rng.choice(ATTR_VALS)
            parts.append(k + b'="' + v.replace(b'"', b"&quot;") + b'"')
        elif fav:
            parts.append(rng.choice(fav).encode() + b"=" + rng.choice([b"'a&amp;b'", b"\"&lt;b&gt;\"", b"x", b"\"'\"", b"'\"'"]))
        else:
            parts.append(b"id=" + str(i).encode())
    if rng.random() < 0.3:       # one very long value
        big = b"".join(rng.choice(ATTR_VALS + ENTITIES + ENC_MARKUP) for _ in range(logu(rng, 50, 3000)))
        parts.insert(rng.randrange(len(parts) + 1), (rng.choice(fav).encode() if fav else b"title") + b'="' + big.replace(b'"', b"&#34;") + b'"')
    sep = rng.choice([b" ", b" ", b"\n", b"\t", b"  "])
    wrap = rng.choice([0, 0, 1, 3])
    s = b"<div>" * wrap + b"<" + el.encode() + b" " + sep.join(parts) + b">" + payload(rng, g) + b"</" + el.encode() + b">" + b"</div>" * wrap
    return s, "long_attrs"


def long_text(rng, g, names, tier):
    n = logu(rng, 2000, TEXT_MAX[tier])
    style = rng.random()
    parts, size = [], 0
    while size < n:
        if style < 0.25:
            x = rng.choice(WORDS[:12]) + b" "
        elif style < 0.5:
            x = rng.choice(ENTITIES + ENC_MARKUP)
        elif style < 0.6:
            x = bytes(rng.choice(HOT.replace(b"<", b"")) for _ in range(8))
        else:
            x = g.text()
        parts.append(x)
        size += len(x)
    k = rng.choice([0, 0, 1, 2, 5])                # a few tags inside the long text
    for _ in range(k):
        parts.insert(rng.randrange(len(parts) + 1), g.node(4))
    body = b"".join(parts)
    w = rng.random()
    if w < 0.4:
        s = body
    elif w < 0.7:
        el = (rng.choice(names) if names and rng.random() < 0.7 else rng.choice(ORDINARY)).encode()
        s = b"<" + el + g.attrs() + b">" + body + b"</" + el + b">"
    elif w < 0.85:
        el = rng.choice(RAWTEXT).encode()
        s = b"<" + el + b">" + body + b"</" + el + b">" + payload(rng, g)
    else:
        s = b"<!--" + body.replace(b"-->", b"") + b"-->" + payload(rng, g)
    return s, "long_text"


def wide(rng, g, names, tier):
    n = logu(rng, 100, WIDE_MAX[tier])
    el = (rng.choice(names) if names and rng.random() < 0.6 else rng.choice(ORDINARY + NEST_NOT)).encode()
    unit = rng.choice([b"<%s>x</%s>" % (el, el), b"<%s>" % el, b"<%s>&lt;" % el, b"<!--c-->", b"<%s a=1>&amp;" % el,
                       b"<br>", b"<%s>\"" % el, b"</%s>x" % el])
    parts = [unit] * n
    for _ in range(rng.choice([1, 2, 4])):
        parts.insert(rng.randrange(len(parts) + 1), payload(rng, g))
    s = b"".join(parts)
    if rng.random() < 0.5:
        p = (rng.choice(names) if names and rng.random() < 0.6 else rng.choice(NEST_BLOCK)).encode()
        s = b"<" + p + b">" + s + b"</" + p + b">"
    return s, "wide"


def gen_deep(rng, names, fav, tier):
    g = Gen(rng, names, fav)
    m = rng.random()
    if m < 0.55:
        return deep_nest(rng, g, names, tier)
    if m < 0.7:
        return long_attrs(rng, g, names, fav, tier)
    if m < 0.85:
        return long_text(rng, g, names, tier)
    return wide(rng, g, names, tier)


def gen_allow(rng):
    """One config.Slice: list of items {'s': bytes} | {'n': number}; plus the element and
    attribute names it mentions."""
    m = rng.random()
    if m < 0.1:
        return [], [], []
    fav = set()
    k = rng.choice([1, 1, 2, 3, 4, 6, 9])
    names = rng.sample(ALLOW_ELEMS, k)
    items = []
    for n in names:
        if rng.random() < 0.5:
            d = n
        else:
            at = rng.sample(ALLOW_ATTRS, rng.choice([1, 1, 2, 3, 5]))
            fav.update(at)
            d = n + "(" + " ".join(at) + ")"
        d = _case(d, rng).encode()
        items.append({"s": d})
    q = rng.random()
    if q < 0.22:     # quirks; several of them leave the proved domain
        quirk = rng.choice(["dup", "dup", "noclose", "dblclose", "dblspace", "emptyattrs", "spacename", "emptydef",
                            "noname", "twoparens", "nonstring", "nonascii", "rawtext", "rawtext", "weird", "trailsp",
                            "foreigncase"])
        if quirk == "dup":
            n = rng.choice(names)
            items.insert(rng.randrange(len(items) + 1),
                         {"s": (n + rng.choice(["", "(class)", "(href id)", "(onclick)"])).encode()})
        elif quirk == "noclose":
            items.append({"s": b"a(href title"})
        elif quirk == "dblclose":
            items.append({"s": b"a(href title)))"})
        elif quirk == "dblspace":
            items.append({"s": b"a(href  title)"})
        elif quirk == "emptyattrs":
            items.append({"s": b"a()"})
        elif quirk == "spacename":
            items.append({"s": b"a (href)"})
        elif quirk == "emptydef":
            items.append({"s": b""})
        elif quirk == "noname":
            items.append({"s": b"(href)"})
        elif quirk == "twoparens":
            items.append({"s": b"a(href)(title)"})
        elif quirk == "nonstring":
            items.insert(rng.randrange(len(items) + 1), {"n": rng.choice([0, 1, 2.5])})
        elif quirk == "nonascii":
            items.append({"s": rng.choice([b"\xc3\x89", b"p\xff", b"a(\xc3\x84)", b"x\xc3\xa9(href)", "K".encode()])})
        elif quirk == "rawtext":
            items.append({"s": rng.choice(RAWTEXT).encode() + rng.choice([b"", b"(src)"])})
        elif quirk == "weird":
            items.append({"s": rng.choice([b"!--", b"a>", b"a(href=x)", b"<b>", b"a(\"x\")", b"b/", b"?xml", b"a(hr>ef)", b"1", b"a&b"])})
        elif quirk == "trailsp":
            items.append({"s": b"a(href )"})
        elif quirk == "foreigncase":
            items.append({"s": rng.choice([b"foreignObject", b"SVG(viewBox)", b"annotation-xml(encoding)"])})
    return items, names, sorted(fav)


# ---- the history stream --------------------------------------------------------------------------
# stripTags is a function of its arguments: what an earlier call was given (the same definition text in
# another combination, the same element with other attributes, the same input) must not show in a
# later call.  A history case carries its earlier calls with it ("before"; the harness makes them on the
# same function value and discards their results), so a replay is self-contained.

def _items(defs):
    return [{"s": d if isinstance(d, bytes) else d.encode()} for d in defs]


def gen_history(rng):
    t = rng.choice([n for n in ALLOW_ELEMS if n not in ("html", "head", "body")])
    a = rng.sample(ALLOW_ATTRS, rng.choice([1, 1, 2, 3]))
    b = rng.sample(ALLOW_ATTRS, rng.choice([1, 1, 2, 3]))
    extra = rng.sample(ALLOW_ATTRS, 2)
    def_a = "%s(%s)" % (t, " ".join(a))
    def_b = "%s(%s)" % (t, " ".join(b))
    others, names, fav = gen_allow(rng)
    others = [it for it in others if "s" in it][:3]
    g = Gen(rng, [t] + names, a + b + extra)

    def elem():
        ats = rng.sample(a + b + extra, rng.randint(1, len(a + b + extra)))
        body = b" ".join(k.encode() + rng.choice([b"=x", b'="a&amp;b"', b"", b"='\"'", b"=1"]) for k in ats)
        return b"<" + t.encode() + b" " + body + b">" + g.text() + b"</" + t.encode() + b">"

    def inp():
        return (g.nodes(3, rng.choice([0, 1])) + elem() + g.nodes(3, rng.choice([0, 0, 1])))[:300]

    def allow():
        m = rng.random()
        if m < 0.2:
            defs = [def_a, def_b]
        elif m < 0.35:
            defs = [def_b, def_a]
        elif m < 0.5:
            defs = [def_a]
        elif m < 0.65:
            defs = [def_b]
        elif m < 0.75:
            defs = [t]
        elif m < 0.85:
            defs = [def_a, t]
        elif m < 0.92:
            defs = [def_a.upper(), def_b]
        else:
            defs = []
        sl = _items(defs)
        if rng.random() < 0.3:
            sl = sl + others if rng.random() < 0.5 else others + sl
        r = rng.random()
        return [sl] if r < 0.92 else [] if r < 0.96 else [sl, _items([def_b])]

    same = inp()
    before = [{"input": same if rng.random() < 0.5 else inp(), "slices": allow()} for _ in range(rng.choice([1, 1, 2, 3]))]
    return {"input": same if rng.random() < 0.6 else inp(), "slices": allow(), "before": before}


def _enc_slices(slices):
    return [[({"s": hx(it["s"])} if "s" in it else {"n": it["n"]}) for it in sl] for sl in slices]


def cq_big(b):
    """A byte string as a Gallina term: a literal when short; otherwise packed 7 bytes per primitive
    integer for Run.Judge_C14.unpack (a literal costs about 100 us per byte in coqc, see Judge_C14.v)."""
    if len(b) < 8:
        return cq_bytes(b)
    ws = []
    for i in range(0, len(b), 7):
        ch = b[i:i + 7]
        ws.append(b"%d" % (int.from_bytes(ch, "little") | (1 << (8 * len(ch)))))
    return b"(unpack [" + b";".join(ws) + b"]%uint63)"


class Interner:
    """Sub-terms that occur more than once in a case (element names, attribute lists, whole tokens)
    are bound once by a let; what occurs once is written in place (thousands of lets are slow too).
    Keys are the data themselves: ("s", bytes) | ("a", ((k, v), ...)) | ("o", name, attrs) | ("l", ctor, data)."""

    def __init__(self):
        self.count = {}
        self.names = {}
        self.defs = []       # (name, term)

    def see(self, key):
        self.count[key] = self.count.get(key, 0) + 1
        if key[0] == "a":
            for k, v in key[1]:
                self.see(("s", k))
                self.see(("s", v))
        elif key[0] == "o":
            self.see(("s", key[1]))
            if key[2]:
                self.see(("a", key[2]))

    def text(self, key):
        if key[0] == "s":
            return cq_big(key[1])
        if key[0] == "a":
            return cq_list([cq_pair(self.render(("s", k)), self.render(("s", v))) for k, v in key[1]])
        if key[0] == "o":
            return b"FOpen " + self.render(("s", key[1])) + b" " + (self.render(("a", key[2])) if key[2] else b"[]")
        return b"FLeaf (" + key[1] + b" " + cq_big(key[2]) + b")"

    def render(self, key):
        if self.count.get(key, 0) < 2:
            return self.text(key)
        nm = self.names.get(key)
        if nm is None:
            body = self.text(key)
            nm = b"%s%d_" % (key[0].encode(), len(self.defs))
            self.names[key] = nm
            self.defs.append((nm, body))
        return nm

    def wrap(self, body):
        return b"".join(b"let " + nm + b" := " + t + b" in " for nm, t in self.defs) + body


def cq_toks(toks):
    """The forest's tokens (harness format) as a Gallina [list ftok] (under lets for repeated parts)."""
    keys = []
    for t in toks:
        k = t["k"]
        if k == "o":
            keys.append(("o", unhx(t.get("d", "")), tuple((unhx(a), unhx(v)) for a, v in t.get("a") or [])))
        elif k == "c":
            keys.append(None)
        elif k in ("t", "m", "y"):
            keys.append(("l", {"t": b"HText", "m": b"HComment", "y": b"HDoctype"}[k], unhx(t.get("d", ""))))
        else:
            keys.append(False)
    it = Interner()
    for key in keys:
        if key:
            it.see(key)
    out = [b"FClose" if key is None else b"FLeaf HOther" if key is False else it.render(key) for key in keys]
    return it.wrap(b"[" + b";".join(out) + b"]")


def _count(toks, pred):
    return sum(1 for t in toks or [] if pred(t))


def _elem(t, names):
    return t["k"] == "o" and unhx(t.get("d", "")) in names


def _bucket(n, edges):
    lo = 0
    for e in edges:
        if n < e:
            return "%d-%d" % (lo, e - 1)
        lo = e
    return ">=%d" % lo


def _clip(b, n=400):
    s = b.decode("latin-1")
    return s if len(s) <= n else s[:n // 2] + "...[%d bytes]..." % len(s) + s[-n // 2:]


class C14(Prop):
    id = "C14"
    engine = "C14"
    judge_module = "Run.Judge_C14"
    prop_module = "Props.C14"
    prop_file = "Props/C14.v"
    coq_targets = ["Props/C14.vo", "Run/Judge_C14.vo"]
    sizes = {"quick": 1000, "thorough": 100000}
    shard = 100
    design_ref = "DESIGN.md section 6 C14"
    rule = ("inputs, ordinary streams (about 85% of the quick tier, at most 300 bytes each): grammar-based HTML fragments "
            "(nesting, unclosed/mis-nested tags, raw-text elements, svg/math integration points, comments, CDATA, bogus "
            "comments, doctypes, entity- and double-entity-encoded markup, attribute soup in every quoting style, upper "
            "case), namespaced attributes (xlink:, xml:, xmlns:) in svg/math content on elements whose allow-list entry "
            "names the bare attribute, byte-level mutations of those, hot-alphabet and random bytes (valid and invalid "
            "UTF-8).  Deep/large "
            "stream (about 10% of the quick tier, 1% of the thorough tier; sizes log-uniform so that any size or depth "
            "threshold inside the range is crossed by a good share of the cases): deep_nest = 80..5000 (thorough: "
            "..40000 for inline elements, ..9000 for elements with scope checks, which cost the parser quadratic time) "
            "levels of allow-listed and/or not allow-listed elements (one element repeated, runs, random mixtures, "
            "ul/li, table/tr/td, svg/g, math/mi chains, also elements the parser refuses to nest), with or without "
            "attributes per level, with entity-encoded markup, quotes, ampersands and small ordinary subtrees at the "
            "bottom and at up to 8 intermediate depths on the way down and up, closed fully / not at all / partly / in "
            "the wrong order; long_attrs = one element with 40..4000 attributes (allowed, not allowed, duplicates, "
            "values with quotes and entities, sometimes one value of up to 30 kB); long_text = 2..60 kB (thorough: "
            "..400 kB) of words, entities, encoded markup in a text node, allowed element, raw-text element or comment; "
            "wide = 100..4000 siblings.  History stream (6% of the cases): a case carries 1-3 earlier calls that the "
            "harness makes on the same function value before the observed call, results discarded - the same "
            "definition text in another combination (t(A) next to t(B), either order, alone, upper case, bare t), "
            "the same element with attributes from A, B and others, the same or another input; the result must not "
            "depend on them.  html.ParseFragment (x/net v0.27.0) itself has no depth limit (measured: 10^6 "
            "nested <b> parse in 1.3 s; cleanTags exhausts Go's 1 GB stack between 10^6 and 5*10^6 levels, which kills "
            "the process and is outside this property), so these bounds are time budgets.  allow-lists: random subsets "
            "of ordinary elements with random attribute lists, upper-case definitions, duplicates, malformed "
            "definitions, empty list, zero or two list arguments.  All cases of a run go through one harness process, "
            "in order (state that survived a call would show in later cases too).  Judging: the SafeDoc checker (linear, "
            "in Coq) and the x/net/html tokenizer oracle run on Go's own output in every case, whatever its size; the "
            "forest ParseFragment returned is handed to the model flat (document order, any depth) and Go's output is "
            "compared with the model's byte for byte as long as the forest's Gallina text is at most 90 kB (measured: "
            "about 10-40 us of coqc time per byte; 8000 levels of one repeated element fit, a few hundred levels when "
            "every level has its own attributes; in the quick tier all but 2-4 cases per run are below the limit); for larger "
            "forests only the forest's character data is handed over and the comparison is the text projection proved "
            "in C14_text_escaped (text between the tags of the result = escaped character data of the forest) - "
            "evidence field judged_without_model_forest counts them; off-domain allow-lists are then counted "
            "unmodelled.  Non-trivial = the parsed forest has an element below body other than html/head/body, or "
            "a text node with a character that must be escaped; distinct by SHA-1 of the case")
    trusted = [
        "golang.org/x/net/html ParseFragment is outside the model: every theorem quantifies over all node forests, and "
        "the judge feeds the model the forest ParseFragment returned for the same input (dumped by the harness as a flat "
        "token list in document order, read back by Models.Strip.build_forest; C14_flat_roundtrip: the encoding loses "
        "nothing)",
        "html.EscapeString is modelled as esc6 (the six characters & ' < > \" CR of escape.go); compared on every case",
        "strings.ToLower is modelled for ASCII only; a definition on which Go's Unicode mapping differs is counted unmodelled",
        "what a browser makes of the output is represented by the SafeDoc grammar (Models/Strip.v) and by the "
        "x/net/html Tokenizer run over Go's output in the harness, not by a model of the HTML5 tokenizer",
        "tools/extract prints pugjs.SelfClosingTags faithfully into Gen/Tables.v",
        "case files: byte strings of 8 bytes or more are written as primitive 63-bit integers, 7 bytes each, and decoded "
        "by Run.Judge_C14.unpack (decoder only, self-test unpack_example; no theorem mentions primitive integers); "
        "repeated sub-terms of a forest are let-bound by the emitter (gen/c14.py Interner)",
        "the judge runs the model as striptags_fast (accumulator, no copying per level); C14_fast_model: it is striptags",
    ]
    assumptions = [
        "allow_ok allow = true: every allow-listed element name starts with an ASCII letter, element and attribute "
        "names are non-empty and contain none of < > \" ' & = / or white space",
        "judge domain additionally: no raw-text element (script, style, textarea, title, xmp, noscript, noframes, "
        "noembed, iframe, plaintext) is allow-listed",
        "inputs nested deeper than about 10^6 levels make cleanTags (and any recursive consumer of the tree) exhaust the "
        "goroutine stack; not generated",
    ]
    not_yet_proved = []

    def generate(self, rng, n, tier):
        cases = []
        for _ in range(n):
            if rng.random() < HISTORY_SHARE:
                h = gen_history(rng)
                cases.append({"input": hx(h["input"]), "kind": "history", "slices": _enc_slices(h["slices"]),
                              "before": [{"input": hx(b["input"]), "slices": _enc_slices(b["slices"])} for b in h["before"]]})
                continue
            items, names, fav = gen_allow(rng)
            if rng.random() < DEEP_SHARE.get(tier, 0.1):
                inp, kind = gen_deep(rng, names, fav, tier)
            else:
                inp, kind = gen_input(rng, names, fav, items)
            m = rng.random()
            if m < 0.9:
                slices = [items]
            elif m < 0.96:
                slices = []
            else:
                slices = [items, gen_allow(rng)[0]]
            cases.append({"input": hx(inp), "kind": kind, "slices": _enc_slices(slices)})
        return cases

    def run(self, binary, cases, tmp, tier):
        # quick: small shards so that the few large cases spread over more coqc processes;
        # thorough: fewer coqc start-ups
        self.shard = 100 if tier == "quick" else 250
        return run_harness(binary, self.engine, cases)

    def emit(self, case, obs):
        sl = cq_list([cq_list([(cq_opt(cq_bytes(unhx(it["s"]))) if "s" in it else b"None") for it in s])
                      for s in case["slices"]])
        toks = None if obs.get("toks_cut") else cq_toks(obs["toks"])
        cmp_model = toks is not None and len(toks) <= MODEL_LIMIT
        obs["cmp_model"] = cmp_model
        return (b"{| slices := " + sl + b"; toks := " + (toks if cmp_model else b"[]") +
                b"; text := " + cq_big(unhx(obs["text"])) + b"; go_out := " + cq_big(unhx(obs["out"])) +
                b"; tok_ok := " + cq_bool(obs["tok_ok"]) +
                b"; modelled := " + cq_bool(obs["modelled"] and obs["class"] == "ok") +
                b"; cmp_model := " + cq_bool(cmp_model) + b" |}")

    def nontrivial(self, case, obs):
        if obs.get("toks_cut"):
            return True
        def interesting(t):
            if t["k"] == "o":
                return unhx(t.get("d", "")) not in (b"html", b"head", b"body")
            if t["k"] == "t":
                return any(ch in unhx(t.get("d", "")) for ch in b"<>&\"'\r")
            return False
        return _count(obs["toks"], interesting) > 0

    def sample(self, case, obs):
        return {"input": _clip(unhx(case["input"])),
                "allow": [[(unhx(it["s"]).decode("latin-1") if "s" in it else it["n"]) for it in s] for s in case["slices"]],
                "go_out": _clip(unhx(obs["out"])), "tokenizer_oracle": obs["tok_ok"],
                "tokenizer_reason": obs.get("tok_reason", ""), "forest_depth": obs.get("depth"),
                "forest_nodes": obs.get("nodes"),
                "earlier_calls": [{"input": _clip(unhx(b["input"])),
                                   "allow": [[(unhx(it["s"]).decode("latin-1") if "s" in it else it["n"]) for it in s]
                                             for s in b["slices"]]} for b in case.get("before") or []]}

    def shrink(self, case):
        inp = unhx(case["input"])
        n = len(inp)
        # large inputs: few, coarse candidates per round (every candidate is judged in Coq)
        cap = 200 if n <= 600 else 48 if n <= 4000 else 20
        k = 0
        step = max(1, n // 2)
        while step >= 1 and k < cap:
            for a in range(0, n, step):
                c = dict(case)
                c["input"] = hx(inp[:a] + inp[a + step:])
                yield c
                k += 1
            if step == 1:
                break
            step //= 2
        for i in range(len(case.get("before") or [])):
            c = dict(case)
            c["before"] = case["before"][:i] + case["before"][i + 1:]
            yield c
        for si, s in enumerate(case["slices"]):
            for i in range(len(s)):
                c = dict(case)
                c["slices"] = [list(x) for x in case["slices"]]
                del c["slices"][si][i]
                yield c

    def model_expr(self):
        return ("(cmp_model c, striptags_fast (slices c) (forest c), esc6 (text c), allow14 c, dom_C14 (allow14 c), "
                "oracle14 c)")

    def distribution(self, cases, obss):
        d = {"kind": {}, "empty_allow": 0, "not_one_slice": 0, "go_out_has_tag": 0, "go_out_has_attr": 0,
             "input_has_entity": 0, "input_has_rawtext_elem": 0, "forest_has_comment": 0, "forest_foreign": 0,
             "unmodelled": 0, "tokenizer_rejects": 0, "mean_input_len": 0, "max_input_len": 0,
             "forest_depth": {}, "deep_with_escapable_text": 0, "deep_with_tags_in_result": 0,
             "longest_attr_list": {}, "go_out_len": {}, "max_forest_depth": 0, "max_go_out_len": 0,
             "judged_without_model_forest": 0}
        tot = 0
        rawtext = set(x.encode() for x in RAWTEXT)
        for c, o in zip(cases, obss):
            k = c.get("kind", "corpus")
            d["kind"][k] = d["kind"].get(k, 0) + 1
            inp = unhx(c["input"])
            out = unhx(o["out"])
            tot += len(inp)
            d["max_input_len"] = max(d["max_input_len"], len(inp))
            d["not_one_slice"] += len(c["slices"]) != 1
            d["empty_allow"] += len(c["slices"]) != 1 or not c["slices"][0]
            d["go_out_has_tag"] += b"<" in out
            d["go_out_has_attr"] += b'="' in out
            d["input_has_entity"] += b"&" in inp
            d["input_has_rawtext_elem"] += _count(o["toks"], lambda t: _elem(t, rawtext)) > 0
            d["forest_has_comment"] += _count(o["toks"], lambda t: t["k"] == "m") > 0
            d["forest_foreign"] += _count(o["toks"], lambda t: _elem(t, (b"svg", b"math"))) > 0
            d["unmodelled"] += not o["modelled"]
            d["tokenizer_rejects"] += not o["tok_ok"]
            b = _bucket(o.get("depth", 0), [16, 64, 256, 1024, 4096, 16384])
            d["forest_depth"][b] = d["forest_depth"].get(b, 0) + 1
            d["max_forest_depth"] = max(d["max_forest_depth"], o.get("depth", 0))
            if o.get("depth", 0) >= 256:
                d["deep_with_escapable_text"] += any(ch in unhx(o["text"]) for ch in b"<>&\"'")
                d["deep_with_tags_in_result"] += b"<" in out
            b = _bucket(o.get("max_attrs", 0), [8, 64, 512, 4096])
            d["longest_attr_list"][b] = d["longest_attr_list"].get(b, 0) + 1
            b = _bucket(len(out), [1024, 8192, 65536, 524288])
            d["go_out_len"][b] = d["go_out_len"].get(b, 0) + 1
            d["max_go_out_len"] = max(d["max_go_out_len"], len(out))
            d["judged_without_model_forest"] += not o.get("cmp_model", True)
            d["earlier_calls"] = d.get("earlier_calls", 0) + len(c.get("before") or [])
        d["mean_input_len"] = round(tot / max(1, len(cases)), 1)
        return d


PROP = C14()
