# C14 — stripTags emits only allow-listed tags/attributes; all else becomes inert text.
from common import *

ORDINARY = ["p", "a", "b", "i", "br", "img", "div", "span", "ul", "li", "h1", "table", "tr", "td",
            "th", "tbody", "em", "strong", "hr", "input", "form", "select", "option", "button",
            "pre", "code", "blockquote", "font", "nobr", "center", "dl", "dd", "x-foo", "col",
            "caption", "wbr", "label"]
RAWTEXT = ["script", "style", "textarea", "title", "xmp", "noscript", "noframes", "noembed",
           "iframe", "plaintext"]
FOREIGN = ["svg", "math", "foreignObject", "desc", "mi", "mtext", "mo", "annotation-xml", "g",
           "circle", "use", "mglyph", "malignmark"]
STRUCT = ["html", "head", "body", "template", "frameset", "base", "meta", "link"]
ATTRS = ["href", "title", "src", "alt", "class", "id", "style", "onclick", "onerror", "data-x",
         "xlink:href", "xml:lang", "hidden", "disabled", "width", "encoding", "definitionurl",
         "target", "name", "value"]
ALLOW_ELEMS = ["p", "a", "b", "i", "br", "img", "div", "span", "ul", "li", "h1", "table", "tr",
               "td", "th", "tbody", "em", "strong", "hr", "pre", "svg", "math", "body", "html",
               "head", "x-foo", "font", "col", "wbr", "input", "form", "desc", "mi", "g"]
ALLOW_ATTRS = ["href", "title", "src", "alt", "class", "id", "style", "onclick", "data-x", "hidden",
               "width", "xlink:href", "target", "name", "encoding"]

WORDS = [b"hello", b"x", b" ", b"a b", b"1 < 2", b"a > b", b"R&D", b"\"q\"", b"it's", b"\r", b"\r\n",
         b"\n", b"\t", b"\x00", b"\xc3\xa9", b"\xe2\x82\xac", b"\xf0\x9f\x98\x80", b"\xff", b"\xc3",
         b"\xed\xa0\x80", b"=", b"/", b"`", b";", b"alert(1)", b"javascript:alert(1)", b"]]>", b"--", b"-->",
         b"\x0c", b"\x0b", b"\x7f", b"\x1b"]
ENTITIES = [b"&amp;", b"&lt;", b"&gt;", b"&quot;", b"&#34;", b"&#39;", b"&apos;", b"&#60;", b"&#x3c;",
            b"&#x3C;", b"&lt", b"&amp", b"&LT;", b"&notanentity;", b"&#0;", b"&#x110000;", b"&#13;",
            b"&#xd;", b"&nbsp;", b"&eacute;", b"&", b"&#", b"&#x", b"&;", b"&amp;lt;", b"&amp;amp;lt;",
            b"&amp;#60;", b"&#38;lt;", b"&NotEqualTilde;", b"&#128;", b"&#x80;"]
ENC_MARKUP = [b"&lt;script&gt;alert(1)&lt;/script&gt;", b"&amp;lt;script&amp;gt;", b"&#60;img src=x onerror=e&#62;",
              b"&lt;a href=&quot;x&quot;&gt;", b"&lt;!--c--&gt;", b"&#x3c;b&#x3e;", b"&lt;p&gt;t&lt;/p&gt;",
              b"&amp;amp;lt;b&amp;amp;gt;", b"&lt;br /&gt;", b"&lt;/p&gt;"]
ATTR_VALS = [b"", b"x", b"a b", b"http://e.x/?a=1&b=2", b"javascript:alert(1)", b"a\"b", b"a'b", b"a<b", b"a>b",
             b"&quot;", b"&#34; onclick=e", b"&lt;script&gt;", b"&amp;lt;", b"\" onclick=\"e", b"' onx='", b"\r", b"a\r\nb",
             b"\xc3\xa9", b"\xff", b"\x00", b"`", b"=", b"/", b"x/", b"&", b"&amp", b">\"<", b"--", b"a\tb", b"a\nb"]
HOT = b"<>&\"'/= !-?[]();#\r\n\t\x00abpxAB"


def _case(s, rng):
    m = rng.random()
    if m < 0.75:
        return s
    if m < 0.9:
        return s.upper()
    return "".join(ch.upper() if rng.random() < 0.5 else ch for ch in s)


class Gen:
    """Grammar of mostly-valid and deliberately broken HTML fragments."""

    def __init__(self, rng, names, fav_attrs=()):
        self.rng = rng
        self.names = names           # element names that the allow-list mentions (favoured)
        self.fav_attrs = list(fav_attrs)   # attribute names that the allow-list mentions (favoured)

    def name(self):
        r = self.rng
        m = r.random()
        if m < 0.45 and self.names:
            return r.choice(self.names)
        if m < 0.7:
            return r.choice(ORDINARY)
        if m < 0.82:
            return r.choice(RAWTEXT)
        if m < 0.93:
            return r.choice(FOREIGN)
        return r.choice(STRUCT)

    def attr(self):
        r = self.rng
        k = _case(r.choice(self.fav_attrs) if self.fav_attrs and r.random() < 0.5 else r.choice(ATTRS), r).encode()
        v = r.choice(ATTR_VALS)
        if r.random() < 0.2:
            v = v + r.choice(ENTITIES + ENC_MARKUP)
        st = r.random()
        if st < 0.35:
            return k + b'="' + v.replace(b'"', b"&quot;" if r.random() < 0.7 else b'"') + b'"'
        if st < 0.55:
            return k + b"='" + v.replace(b"'", b"&#39;" if r.random() < 0.7 else b"'") + b"'"
        if st < 0.7:
            return k + b"=" + (v.replace(b" ", b"") or b"x")
        if st < 0.82:
            return k
        if st < 0.88:
            return k + b"="
        if st < 0.94:
            return k + b" = \"" + v + b"\""
        return k + b'=""'

    def attrs(self):
        r = self.rng
        n = r.choice([0, 0, 0, 1, 1, 2, 3, 5])
        parts = [self.attr() for _ in range(n)]
        if n >= 2 and r.random() < 0.2:
            parts.append(parts[0])                      # duplicate attribute
        sep = b" " if r.random() < 0.85 else r.choice([b"", b"/", b"\n", b"\t ", b"  "])
        s = sep.join(parts)
        if parts and r.random() < 0.95:
            s = b" " + s
        return s

    def text(self):
        r = self.rng
        m = r.random()
        if m < 0.5:
            return r.choice(WORDS)
        if m < 0.75:
            return r.choice(ENTITIES)
        if m < 0.9:
            return r.choice(ENC_MARKUP)
        return bytes(r.choice(HOT) for _ in range(r.randint(1, 6)))

    def node(self, depth):
        r = self.rng
        m = r.random()
        if m < 0.3 or depth > 5:
            return self.text()
        if m < 0.72:
            n = self.name()
            open_ = b"<" + _case(n, r).encode() + self.attrs() + (b"/" if r.random() < 0.07 else b"") + b">"
            inner = self.nodes(depth + 1, r.choice([0, 1, 1, 2, 3]))
            if n in RAWTEXT and r.random() < 0.6:
                inner = r.choice([b"<b>x</b>", b"alert(1)", b"</" + n.encode()[:3], b"<!--", b"&lt;b&gt;",
                                  b"x</script >y", b"</p>", b"<![CDATA[x]]>"]) + (inner if r.random() < 0.3 else b"")
            cl = r.random()
            if cl < 0.7:
                close = b"</" + _case(n, r).encode() + b">"
            elif cl < 0.85:
                close = b""                                   # unclosed
            elif cl < 0.93:
                close = b"</" + self.name().encode() + b">"   # mis-nested
            else:
                close = b"</" + n.encode() + r.choice([b" x=y>", b"/>", b" >", b""])
            return open_ + inner + close
        if m < 0.79:
            return b"<!--" + r.choice([b"c", b"", b">", b"->", b"-", b"<b>x</b>", b"--!>x", b"[if IE]><b>x<![endif]",
                                       b"&lt;", b"\x00"]) + r.choice([b"-->", b"-->", b"--!>", b"", b"--", b"->"])
        if m < 0.83:
            return r.choice([b"<![CDATA[", b"<![cdata["]) + r.choice([b"x", b"<b>y</b>", b"]]", b"&lt;"]) + r.choice([b"]]>", b""])
        if m < 0.9:
            return r.choice([b"<!x>", b"<?x>", b"<?xml version=\"1.0\"?>", b"<!DOCTYPE html>", b"<!doctype html PUBLIC \"a\" 'b'>",
                             b"<!>", b"<!-->", b"</>", b"</ x>", b"<%x%>", b"<!ELEMENT b>", b"<!doctype", b"</#>", b"<?", b"<!"])
        if m < 0.95:
            return b"</" + _case(self.name(), r).encode() + b">"      # stray end tag
        return r.choice([b"<", b"< ", b"<1", b"<a", b"<a b", b"<a b=", b"<a b=\"", b"<a b='c", b"</", b"</a", b"<a/", b"<<b>",
                         b"<b<i>", b"<b\x00c>", b"<\xff>", b"<a \x00=x>", b"<a =x>", b"<a x=y=z>", b"<a \"x\"=1>"])

    def nodes(self, depth, n):
        return b"".join(self.node(depth) for _ in range(n))


INTEGRATION = [
    b"<svg><foreignObject><p>t</p><b x=1>u</foreignObject><a href=h>v</a></svg>",
    b"<math><mi><b>t</b></mi><annotation-xml encoding=\"text/html\"><p>u</p></annotation-xml><a xlink:href=j>w</a></math>",
    b"<svg><desc><b>t</b></desc><title><i>u</i></title><script>x<b>y</script></svg>",
    b"<svg><![CDATA[<b>t</b>]]><p>out</p></svg>",
    b"<math><mtext><b>t</b><mglyph><i>u</i></mtext><p>v",
    b"<svg><a xlink:href=\"javascript:alert(1)\" href='k' XLINK:title=t>q</a><font color=red>f</svg>",
    b"<table><b>foster<tr><td>c<p>d</table><caption>e",
    b"<select><b>x</b><option>y<p>z</select><template><td>q</td><b>r</template>",
    b"<b><p>x</b>y</p><i><div>1</i>2</div>",
    b"<a href=1><a href=2>nested</a></a><nobr><nobr>x</nobr></nobr>",
    b"<p>1<table><p>2</table><frameset><frame></frameset>",
    b"<noscript><p title=\"</noscript><img src=x onerror=e>\"></noscript>",
    b"<textarea></textarea><b>x</b></textarea><title>&lt;b&gt;</title>",
    b"<body class=z onload=e><html lang=en><head><base href=//x><meta charset=u></head>t",
    b"<plaintext><b>never</b> closed",
    b"<iframe><b>x</b></iframe><noembed><i>y</i></noembed><xmp><u>z</u></xmp>",
    b"<style><!-- </style><b>x</b> --></style>",
    b"<script><!--<script></script><b>x</b>--></script><i>y</i>",
    b"<img src=x alt='a\"b' onerror=e><br clear=all/><hr><input value=\"<b>\" disabled><wbr>",
    b"<p/><div/>x<br></br></p>",
]


def gen_input(rng, names, fav_attrs=()):
    g = Gen(rng, names, fav_attrs)
    m = rng.random()
    if m < 0.62:
        s = g.nodes(0, rng.choice([1, 2, 2, 3, 4, 6]))
        kind = "grammar"
    elif m < 0.72:
        s = rng.choice(INTEGRATION)
        if rng.random() < 0.5:
            s = g.nodes(2, 1) + s + g.nodes(2, 1)
        kind = "integration"
    elif m < 0.9:
        s = bytearray(g.nodes(0, rng.choice([2, 3, 4])) if rng.random() < 0.7 else rng.choice(INTEGRATION))
        for _ in range(rng.randint(1, 5)):
            op = rng.random()
            pos = rng.randrange(len(s) + 1)
            if op < 0.3 and s:
                del s[pos % len(s)]
            elif op < 0.6:
                s.insert(pos, rng.choice(HOT))
            elif op < 0.7:
                s.insert(pos, rng.randrange(256))
            elif op < 0.8 and s:
                s[pos % len(s)] ^= 1 << rng.randrange(8)
            elif op < 0.9 and s:
                a = rng.randrange(len(s))
                b = min(len(s), a + rng.randint(1, 12))
                s[pos:pos] = s[a:b]
            else:
                del s[pos:]
        s = bytes(s)
        kind = "mutated"
    elif m < 0.96:
        s = bytes(rng.choice(HOT) for _ in range(rng.randint(0, 60)))
        kind = "hot_bytes"
    else:
        s = bytes(rng.randrange(256) for _ in range(rng.randint(0, 60)))
        kind = "random_bytes"
    return s[:300], kind


def gen_allow(rng):
    """One config.Slice: list of items {'s': bytes} | {'n': number}; plus the element and
    attribute names it mentions."""
    m = rng.random()
    if m < 0.1:
        return [], [], []
    fav = set()
    k = rng.choice([1, 1, 2, 3, 4, 6, 9])
    names = rng.sample(ALLOW_ELEMS, k)
    items = []
    for n in names:
        if rng.random() < 0.5:
            d = n
        else:
            at = rng.sample(ALLOW_ATTRS, rng.choice([1, 1, 2, 3, 5]))
            fav.update(at)
            d = n + "(" + " ".join(at) + ")"
        d = _case(d, rng).encode()
        items.append({"s": d})
    q = rng.random()
    if q < 0.22:     # quirks; several of them leave the proved domain
        quirk = rng.choice(["dup", "dup", "noclose", "dblclose", "dblspace", "emptyattrs", "spacename", "emptydef",
                            "noname", "twoparens", "nonstring", "nonascii", "rawtext", "rawtext", "weird", "trailsp",
                            "foreigncase"])
        if quirk == "dup":
            n = rng.choice(names)
            items.insert(rng.randrange(len(items) + 1),
                         {"s": (n + rng.choice(["", "(class)", "(href id)", "(onclick)"])).encode()})
        elif quirk == "noclose":
            items.append({"s": b"a(href title"})
        elif quirk == "dblclose":
            items.append({"s": b"a(href title)))"})
        elif quirk == "dblspace":
            items.append({"s": b"a(href  title)"})
        elif quirk == "emptyattrs":
            items.append({"s": b"a()"})
        elif quirk == "spacename":
            items.append({"s": b"a (href)"})
        elif quirk == "emptydef":
            items.append({"s": b""})
        elif quirk == "noname":
            items.append({"s": b"(href)"})
        elif quirk == "twoparens":
            items.append({"s": b"a(href)(title)"})
        elif quirk == "nonstring":
            items.insert(rng.randrange(len(items) + 1), {"n": rng.choice([0, 1, 2.5])})
        elif quirk == "nonascii":
            items.append({"s": rng.choice([b"\xc3\x89", b"p\xff", b"a(\xc3\x84)", b"x\xc3\xa9(href)", "K".encode()])})
        elif quirk == "rawtext":
            items.append({"s": rng.choice(RAWTEXT).encode() + rng.choice([b"", b"(src)"])})
        elif quirk == "weird":
            items.append({"s": rng.choice([b"!--", b"a>", b"a(href=x)", b"<b>", b"a(\"x\")", b"b/", b"?xml", b"a(hr>ef)", b"1", b"a&b"])})
        elif quirk == "trailsp":
            items.append({"s": b"a(href )"})
        elif quirk == "foreigncase":
            items.append({"s": rng.choice([b"foreignObject", b"SVG(viewBox)", b"annotation-xml(encoding)"])})
    return items, names, sorted(fav)


def hnode(n):
    t = n["type"]
    d = cq_bytes(unhx(n["data"]))
    if t == "elem":
        attrs = cq_list([cq_pair(cq_bytes(unhx(k)), cq_bytes(unhx(v))) for k, v in n.get("attrs") or []])
        kids = cq_list([hnode(c) for c in n.get("children") or []])
        return b"HElem " + d + b" " + attrs + b" " + kids
    if t == "text":
        return b"HText " + d
    if t == "comment":
        return b"HComment " + d
    if t == "doctype":
        return b"HDoctype " + d
    return b"HOther"


def _count(nodes, pred):
    k = 0
    for n in nodes or []:
        k += bool(pred(n)) + _count(n.get("children"), pred)
    return k


class C14(Prop):
    id = "C14"
    engine = "C14"
    judge_module = "Run.Judge_C14"
    prop_module = "Props.C14"
    prop_file = "Props/C14.v"
    coq_targets = ["Props/C14.vo", "Run/Judge_C14.vo"]
    sizes = {"quick": 1000, "thorough": 100000}
    shard = 250
    design_ref = "DESIGN.md section 6 C14"
    rule = ("inputs: grammar-based HTML fragments (nesting, unclosed/mis-nested tags, raw-text elements, svg/math "
            "integration points, comments, CDATA, bogus comments, doctypes, entity- and double-entity-encoded markup, "
            "attribute soup in every quoting style, upper case), byte-level mutations of those, hot-alphabet and random "
            "bytes (valid and invalid UTF-8), at most 300 bytes; allow-lists: random subsets of ordinary elements with "
            "random attribute lists, upper-case definitions, duplicates, malformed definitions, empty list, zero or two "
            "list arguments.  Non-trivial = the parsed forest has an element below body other than html/head/body, or "
            "a text node with a character that must be escaped; distinct by SHA-1 of the case")
    trusted = [
        "golang.org/x/net/html ParseFragment is outside the model: every theorem quantifies over all node forests, and "
        "the judge feeds the model the forest ParseFragment returned for the same input (dumped by the harness)",
        "html.EscapeString is modelled as esc6 (the six characters & ' < > \" CR of escape.go); compared on every case",
        "strings.ToLower is modelled for ASCII only; a definition on which Go's Unicode mapping differs is counted unmodelled",
        "what a browser makes of the output is represented by the SafeDoc grammar (Models/Strip.v) and by the "
        "x/net/html Tokenizer run over Go's output in the harness, not by a model of the HTML5 tokenizer",
        "tools/extract prints pugjs.SelfClosingTags faithfully into Gen/Tables.v",
    ]
    assumptions = [
        "allow_ok allow = true: every allow-listed element name starts with an ASCII letter, element and attribute "
        "names are non-empty and contain none of < > \" ' & = / or white space",
        "judge domain additionally: no raw-text element (script, style, textarea, title, xmp, noscript, noframes, "
        "noembed, iframe, plaintext) is allow-listed",
    ]
    not_yet_proved = []

    def generate(self, rng, n, tier):
        cases = []
        for _ in range(n):
            items, names, fav = gen_allow(rng)
            inp, kind = gen_input(rng, names, fav)
            m = rng.random()
            if m < 0.9:
                slices = [items]
            elif m < 0.96:
                slices = []
            else:
                slices = [items, gen_allow(rng)[0]]
            cases.append({"input": hx(inp), "kind": kind,
                          "slices": [[({"s": hx(it["s"])} if "s" in it else {"n": it["n"]}) for it in sl]
                                     for sl in slices]})
        return cases

    def emit(self, case, obs):
        sl = cq_list([cq_list([(cq_opt(cq_bytes(unhx(it["s"]))) if "s" in it else b"None") for it in s])
                      for s in case["slices"]])
        forest = cq_list([hnode(n) for n in obs["forest"] or []])
        return (b"{| slices := " + sl + b"; forest := " + forest + b"; go_out := " + cq_bytes(unhx(obs["out"])) +
                b"; tok_ok := " + cq_bool(obs["tok_ok"]) +
                b"; modelled := " + cq_bool(obs["modelled"] and obs["class"] == "ok") + b" |}")

    def nontrivial(self, case, obs):
        def interesting(n):
            if n["type"] == "elem":
                return unhx(n["data"]) not in (b"html", b"head", b"body")
            if n["type"] == "text":
                return any(ch in unhx(n["data"]) for ch in b"<>&\"'\r")
            return False
        return _count(obs["forest"], interesting) > 0

    def sample(self, case, obs):
        return {"input": unhx(case["input"]).decode("latin-1"),
                "allow": [[(unhx(it["s"]).decode("latin-1") if "s" in it else it["n"]) for it in s] for s in case["slices"]],
                "go_out": unhx(obs["out"]).decode("latin-1"), "tokenizer_oracle": obs["tok_ok"],
                "tokenizer_reason": obs.get("tok_reason", "")}

    def shrink(self, case):
        inp = unhx(case["input"])
        n = len(inp)
        step = max(1, n // 2)
        while step >= 1:
            for a in range(0, n, step):
                c = dict(case)
                c["input"] = hx(inp[:a] + inp[a + step:])
                yield c
            if step == 1:
                break
            step //= 2
        for si, s in enumerate(case["slices"]):
            for i in range(len(s)):
                c = dict(case)
                c["slices"] = [list(x) for x in case["slices"]]
                del c["slices"][si][i]
                yield c

    def model_expr(self):
        return "(striptags (slices c) (forest c), allow14 c, dom_C14 (allow14 c), oracle14 c)"

    def distribution(self, cases, obss):
        d = {"kind": {}, "empty_allow": 0, "not_one_slice": 0, "go_out_has_tag": 0, "go_out_has_attr": 0,
             "input_has_entity": 0, "input_has_rawtext_elem": 0, "forest_has_comment": 0, "forest_foreign": 0,
             "unmodelled": 0, "tokenizer_rejects": 0, "mean_input_len": 0, "max_input_len": 0}
        tot = 0
        for c, o in zip(cases, obss):
            k = c.get("kind", "corpus")
            d["kind"][k] = d["kind"].get(k, 0) + 1
            inp = unhx(c["input"])
            out = unhx(o["out"])
            tot += len(inp)
            d["max_input_len"] = max(d["max_input_len"], len(inp))
            d["not_one_slice"] += len(c["slices"]) != 1
            d["empty_allow"] += len(c["slices"]) != 1 or not c["slices"][0]
            d["go_out_has_tag"] += b"<" in out
            d["go_out_has_attr"] += b'="' in out
            d["input_has_entity"] += b"&" in inp
            d["input_has_rawtext_elem"] += _count(o["forest"], lambda n: n["type"] == "elem" and unhx(n["data"]).decode("latin-1") in RAWTEXT) > 0
            d["forest_has_comment"] += _count(o["forest"], lambda n: n["type"] == "comment") > 0
            d["forest_foreign"] += _count(o["forest"], lambda n: n["type"] == "elem" and unhx(n["data"]) in (b"svg", b"math")) > 0
            d["unmodelled"] += not o["modelled"]
            d["tokenizer_rejects"] += not o["tok_ok"]
        d["mean_input_len"] = round(tot / max(1, len(cases)), 1)
        return d


PROP = C14()
