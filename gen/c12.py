# C12 — data handed to the browser as JSON is valid JSON and equals the source data.
#
# A case is one Go value in the harness's typed format
#   {"t": "nil|bool|int|float|str|arr|nilarr|map|nilmap|nest", "v": ...}      (see harness/c12.go)
# The harness stringifies it directly and through four templates, re-parses it, and decodes the text with
# encoding/json as a Go-side oracle; Run/Judge_C12.v compares every text with the Gallina printer
# encode_go and reads Go's own text back with the Gallina reader.
#
# About a third of the cases carry a HISTORY as well (case["plan"], realised as case["hist"]): JSON.parse and
# JSON.stringify must be functions of their argument whatever the process did before.  A history is a sequence
# of segments run in ONE harness process (each history case gets a process of its own, so that a replay or a
# shrink candidate never sees state left behind by another case):
#   render segments  Engine.Render of a template written for the case (parse a copy of the page data or of an
#                    earlier copy, assign into it / push, pop, shift, unshift, splice on its arrays at any depth,
#                    write JSON.stringify / json of any variable, parse the same text again ...), on one of two
#                    engines, the same template possibly rendered again, the page data being the same Go value
#                    or an equal one built anew
#   api segments     the same steps done by a Go caller through the exported functions; its objects stay alive
#                    between segments
# The abstract history (HConv / HParse / HMut / HOut, Models/JsonHist.v) goes to the judge together with the
# texts Go wrote; which texts must be THE text of the data is decided in Coq (pristine_run), not here.
import copy
import math
import re
from concurrent.futures import ThreadPoolExecutor
from common import *

TWO53 = 2 ** 53
TWO54 = 2 ** 54

# ---------------------------------------------------------------- typed values


def t_nil():
    return {"t": "nil"}


def t_bool(b):
    return {"t": "bool", "v": bool(b)}


def t_int(n):
    return {"t": "int", "v": str(n)}


def t_float(text):
    return {"t": "float", "v": text}


def t_str(b):
    return {"t": "str", "v": hx(b)}


def t_arr(l):
    return {"t": "arr", "v": l}


def t_map(kvs):
    """kvs: list of (bytes key, typed value); later duplicates win, as in a Go map literal"""
    seen = {}
    for k, v in kvs:
        seen[bytes(k)] = v
    return {"t": "map", "v": [[hx(k), v] for k, v in seen.items()]}


def expand(v):
    """nest -> explicit arr/map (for the Gallina term and for measures)"""
    if v["t"] == "nest":
        cur = expand(v["v"]["leaf"])
        for _ in range(v["v"]["n"]):
            cur = t_map([(b"a", cur)]) if v["v"]["kind"] == "map" else t_arr([cur])
        return cur
    if v["t"] == "arr":
        return {"t": "arr", "v": [expand(x) for x in v["v"]]}
    if v["t"] == "map":
        return {"t": "map", "v": [[k, expand(x)] for k, x in v["v"]]}
    return v


def float_class(text):
    """('int', n) for an integer-valued float64 the model covers, else ('other',)"""
    f = float(text)
    if math.isinf(f) or math.isnan(f):
        return ("other",)
    if f == 0.0 and math.copysign(1.0, f) < 0:
        return ("other",)          # minus zero prints as -0
    if f == math.floor(f) and abs(f) <= TWO54:
        return ("int", int(f))
    return ("other",)


def coq_of(v):
    t = v["t"]
    if t == "nil":
        return b"GNil"
    if t == "bool":
        return b"(GBool " + cq_bool(v["v"]) + b")"
    if t == "int":
        return b"(GInt " + cq_Z(int(v["v"])) + b")"
    if t == "float":
        c = float_class(v["v"])
        return b"(GInt " + cq_Z(c[1]) + b")" if c[0] == "int" else b"GOther"
    if t == "str":
        return b"(GStr " + cq_bytes(unhx(v["v"])) + b")"
    if t == "nilarr":
        return b"(GArr [])"
    if t == "nilmap":
        return b"(GMap [])"
    if t == "arr":
        return b"(GArr " + cq_list([coq_of(x) for x in v["v"]]) + b")"
    if t == "map":
        return b"(GMap " + cq_list([cq_pair(cq_bytes(unhx(k)), coq_of(x)) for k, x in v["v"]]) + b")"
    if t == "nest":
        return coq_of(expand(v))
    raise ValueError(t)


def plain(v):
    """JSON-printable rendering for evidence samples"""
    t = v["t"]
    if t == "nil":
        return None
    if t == "bool":
        return v["v"]
    if t == "int":
        return int(v["v"])
    if t == "float":
        return float(v["v"])
    if t == "str":
        return unhx(v["v"]).decode("utf-8", "replace")
    if t == "nilarr":
        return []
    if t == "nilmap":
        return {}
    if t == "arr":
        return [plain(x) for x in v["v"]]
    if t == "map":
        return {unhx(k).decode("utf-8", "replace"): plain(x) for k, x in v["v"]}
    if t == "nest":
        return {"nest": v["v"]["n"], "kind": v["v"]["kind"], "leaf": plain(v["v"]["leaf"])}
    raise ValueError(t)


def walk(v):
    yield v
    if v["t"] == "arr":
        for x in v["v"]:
            yield from walk(x)
    elif v["t"] == "map":
        for _, x in v["v"]:
            yield from walk(x)
    elif v["t"] == "nest":
        yield from walk(v["v"]["leaf"])


def depth(v):
    if v["t"] == "arr":
        return 1 + max([depth(x) for x in v["v"]] + [0])
    if v["t"] == "map":
        return 1 + max([depth(x) for _, x in v["v"]] + [0])
    if v["t"] == "nest":
        return v["v"]["n"] + depth(v["v"]["leaf"])
    return 0


def valid_utf8(b):
    try:
        b.decode("utf-8")
        return True
    except UnicodeDecodeError:
        return False


# ---------------------------------------------------------------- text material

WORDS = [b"a", b"x", b"id", b"name", b"hello world", b"0", b"42", b"true", b"null", b" ", b"", b"price",
         b"The quick brown fox"]
QUOTES = [b'"', b'\\', b'\\"', b'"\\', b"'", b'\\\\', b'\\n', b'\\u0041', b'\\u', b'/', b'\\/', b'""', b'"}', b'","a":"']
CONTROL = [bytes([i]) for i in range(0, 32)] + [b"\x7f", b"\r\n", b"\x00\x00", b"\x1b[0m"]
MARKUP = [b"<", b">", b"&", b"</script>", b"<!--", b"-->", b"<script>alert(1)</script>", b"&amp;", b"&#34;", b"&lt;",
          b"]]>", b"<b>&</b>"]
UNI2 = ["\u00e9", "\u00fc", "\u00df", "\u00f1", "\u00a1", "\u0080", "\u07ff", "\u03a9", "\u0436", "\u0130", "\u01c5"]
UNI3 = ["\u20ac", "\u65e5\u672c\u8a9e", "\u0800", "\uffff", "\ufffd", "\u2027", "\u2028", "\u2029", "\u202a",
        "\u2028\u2029", "\ud7ff", "\ue000", "\ufeff", "\u200b", "\ud55c", "\u20a8", "\u20a9", "a\u2028b"]
UNI4 = ["\U0001f600", "\U0001d4b3", "\U00010000", "\U0010ffff", "\U0001f468\u200d\U0001f469\u200d\U0001f467"]
# byte strings that are not UTF-8: lone continuation, truncated sequences, overlong forms, surrogates, > U+10FFFF
BAD_UTF8 = [b"\x80", b"\xbf", b"\xc3", b"\xe2\x80", b"\xf0\x9f\x98", b"\xc0\x80", b"\xc1\xbf", b"\xe0\x80\x80",
            b"\xed\xa0\x80", b"\xed\xbf\xbf", b"\xf0\x80\x80\x80", b"\xf4\x90\x80\x80", b"\xf5\x80\x80\x80", b"\xff",
            b"\xfe", b"\xe2\x80\x28", b"\xe2\x28\xa8", b"a\xffb", b"\xc3\x28", b"\xe2\x82", b"\xf8\x88\x80\x80\x80"]


def gen_text(rng, hostile=False, maxparts=6):
    n = rng.choice([0, 1, 1, 2, 2, 3, 4, maxparts])
    parts = []
    for _ in range(n):
        r = rng.random()
        if r < 0.22:
            parts.append(rng.choice(WORDS))
        elif r < 0.38:
            parts.append(rng.choice(QUOTES))
        elif r < 0.52:
            parts.append(rng.choice(CONTROL))
        elif r < 0.64:
            parts.append(rng.choice(MARKUP))
        elif r < 0.74:
            parts.append(rng.choice(UNI2).encode("utf-8"))
        elif r < 0.88:
            parts.append(rng.choice(UNI3).encode("utf-8"))
        elif r < 0.95:
            parts.append(rng.choice(UNI4).encode("utf-8"))
        else:
            parts.append(bytes(rng.randrange(32, 127) for _ in range(rng.randint(1, 12))))
        if hostile and rng.random() < 0.5:
            parts.append(rng.choice(BAD_UTF8))
    return b"".join(parts)


LOWER = b"abcdefghijklmnopqrstuvwxyz"
KEY_HEADS = [b"a", b"b", b"c", b"id", b"x", b"y", b"key", b"name", b"value", b"items", b"z", b"k", b"n", b"data",
             b"_p", b"$ref", b"0", b"9z", b"-", b" ", b"@type", b"a.b", b"a b", b"q"]


def gen_key(rng, mode):
    """mode: 'dom' lower-case-initial ASCII head + any Unicode tail; 'upper'; 'nonascii'; 'bad' (not UTF-8)"""
    r = rng.random()
    if mode == "upper":
        head = bytes([rng.randrange(65, 91)]) + rng.choice([b"", b"oo", b"ID", b"ame"])
        return head + (gen_text(rng, maxparts=2) if r < 0.3 else b"")
    if mode == "nonascii":
        return rng.choice(["\u00e9", "\u00c9", "\u00df", "\u65e5", "\u0130", "\u03a9mega", "\U0001f600", "\u2028", "\u01c5x"]).encode("utf-8") + rng.choice([b"", b"x", b"Y"])
    if mode == "bad":
        return rng.choice([b"k", b"", b"a"]) + rng.choice(BAD_UTF8) + rng.choice([b"", b"z"])
    if r < 0.04:
        return b""
    head = rng.choice(KEY_HEADS) if r < 0.7 else bytes([rng.choice(LOWER)]) + bytes(rng.choice(LOWER + b"ABZ019_") for _ in range(rng.randint(0, 6)))
    if rng.random() < 0.45:
        head += gen_text(rng, maxparts=3)
    return head


EDGE_INTS = [0, 1, -1, 2, 7, 10, -10, 99, 100, 255, 256, 1000, 65535, 65536, 2 ** 31 - 1, 2 ** 31, -2 ** 31, 2 ** 32,
             10 ** 9, 10 ** 10, 12345678901, 10 ** 15, 10 ** 15 + 1, 999999999999999, 10 ** 16 // 2,
             TWO53 - 2, TWO53 - 1, TWO53, -(TWO53 - 1), -TWO53, 4503599627370496, 4503599627370497, 9007199254740990,
             1234567890123456, 9000000000000000, 8999999999999999, 123456789012345]
OUT_INTS = [TWO53 + 1, TWO53 + 2, TWO53 + 3, -(TWO53 + 1), -(TWO53 + 3), TWO54 - 1, TWO54, -TWO54, 10 ** 16 + 1, 10 ** 16 + 3,
            9007199254740995, 12345678901234567, 17999999999999999]
FAR_INTS = [TWO54 + 1, 2 ** 62, 2 ** 63 - 1, -2 ** 63, 10 ** 18, 10 ** 17 + 1]
FRACS = ["1.5", "-0.25", "0.1", "3.141592653589793", "1e-7", "1e21", "1e22", "-0.0", "123456.789", "1e300", "5e-324",
         "0.000001", "0.0000001", "1e20", "1.7976931348623157e308", "36028797018963968"]


# hostile themes: one per case, so that a case leaves the domain (or the model) for one reason
#   upper: upper-case-initial keys; collide: Foo/foo pairs; bad: bytes that are not UTF-8; big: integers beyond 2^53
#   (modelled up to 2^54); far: integers beyond 2^54 and fractions (not modelled); nonascii: keys with a non-ASCII
#   first rune (not modelled)
THEMES = ["upper", "upper", "collide", "collide", "bad", "bad", "big", "big", "far", "nonascii"]


def gen_int(rng, theme):
    r = rng.random()
    if theme == "big" and r < 0.5:
        return rng.choice(OUT_INTS) if r < 0.35 else rng.choice([1, -1]) * rng.randrange(TWO53 + 1, TWO54 + 1)
    if theme == "far" and r < 0.3:
        return rng.choice(FAR_INTS)
    if r < 0.35:
        return rng.randint(-20, 120)
    if r < 0.65:
        return rng.choice(EDGE_INTS) * rng.choice([1, 1, -1])
    if r < 0.8:
        return rng.choice([1, -1]) * rng.randrange(0, 10 ** rng.randint(1, 15))
    if r < 0.93:
        return rng.choice([1, -1]) * (TWO53 - rng.randrange(0, 1000))
    return rng.choice([1, -1]) * rng.randrange(2 ** 52, TWO53 + 1)


def gen_number(rng, theme):
    r = rng.random()
    if r < (0.3 if theme == "far" else 0.002):
        return t_float(rng.choice(FRACS))
    n = gen_int(rng, theme)
    if rng.random() < 0.5 and abs(n) < 2 ** 63 - 1024:
        return t_float(str(n))      # float64 holding an integer
    return t_int(max(-2 ** 63, min(2 ** 63 - 1, n)))


def gen_leaf(rng, theme):
    r = rng.random()
    if r < 0.08:
        return t_nil()
    if r < 0.16:
        return t_bool(rng.random() < 0.5)
    if r < 0.45:
        return gen_number(rng, theme)
    if r < 0.48:
        return {"t": "nilarr"} if rng.random() < 0.5 else {"t": "nilmap"}
    return t_str(gen_text(rng, theme == "bad"))


def gen_value(rng, d, theme, wide):
    if d <= 0 or rng.random() < 0.3:
        return gen_leaf(rng, theme)
    r = rng.random()
    if r < 0.45:
        n = rng.choice([0, 1, 2, 2, 3, 4, wide])
        return t_arr([gen_value(rng, d - 1, theme, max(2, wide // 2)) for _ in range(n)])
    n = rng.choice([0, 1, 2, 2, 3, 4, wide])
    kvs = []
    for _ in range(n):
        mode = "dom"
        if theme in ("upper", "nonascii", "bad") and rng.random() < 0.4:
            mode = theme
        k = gen_key(rng, mode)
        kvs.append((k, gen_value(rng, d - 1, theme, max(2, wide // 2))))
        if theme == "collide" and rng.random() < 0.5 and k[:1].isalpha():
            kvs.append((k[:1].swapcase() + k[1:], gen_leaf(rng, None)))       # Foo / foo
    if rng.random() < 0.5:
        rng.shuffle(kvs)
    return t_map(kvs)


def gen_case(rng, tier):
    r = rng.random()
    big = tier == "thorough"
    if r < 0.06:      # long arrays / wide objects of small things
        n = rng.randint(30, 400 if big else 150)
        if rng.random() < 0.5:
            return t_arr([gen_leaf(rng, None) if rng.random() < 0.8 else t_arr([]) for _ in range(n)])
        n = min(n, 120 if big else 60)
        return t_map([(gen_key(rng, "dom") + str(i).encode(), gen_leaf(rng, None)) for i in range(n)])
    if r < 0.12:      # deep nesting
        n = rng.randint(8, 200 if big else 60)
        return {"t": "nest", "v": {"n": n, "kind": rng.choice(["arr", "map"]), "leaf": gen_value(rng, 2, None, 3)}}
    if r < 0.2:       # one string, long or nasty
        parts = [gen_text(rng, False, 8) for _ in range(rng.randint(1, 20 if big else 8))]
        return t_str(b"".join(parts))
    if r < 0.27:      # a bare leaf
        return gen_leaf(rng, None)
    theme = rng.choice(THEMES) if r > 0.84 else None
    return gen_value(rng, rng.choice([1, 2, 3, 4, 6 if not big else 10]), theme, rng.choice([3, 5, 8, 12]))



# ---------------------------------------------------------------- histories (one process, many calls)

IDENT = re.compile(rb"[a-z][a-zA-Z0-9]*")
JS_WORDS = {b"break", b"case", b"catch", b"continue", b"debugger", b"default", b"delete", b"do", b"else", b"finally", b"for",
            b"function", b"if", b"in", b"instanceof", b"new", b"return", b"switch", b"this", b"throw", b"try", b"typeof",
            b"var", b"void", b"while", b"with", b"class", b"const", b"enum", b"export", b"extends", b"import", b"super",
            b"null", b"true", b"false", b"let", b"static", b"yield", b"range", b"x", b"w"}


def ident_safe(kb):
    return bool(IDENT.fullmatch(kb)) and kb not in JS_WORDS


def shape_of(v):
    """typed value -> mutable shape: ['map', {key bytes: shape}] | ['arr', [shape]] | ['leaf']"""
    v = expand(v)
    if v["t"] == "map":
        return ["map", {unhx(k): shape_of(x) for k, x in v["v"]}]
    if v["t"] == "arr":
        return ["arr", [shape_of(x) for x in v["v"]]]
    if v["t"] == "nilarr":
        return ["arr", []]
    if v["t"] == "nilmap":
        return ["map", {}]
    return ["leaf"]


def stable_key(kb):
    """a key that JSON.parse(JSON.stringify(.)) gives back as it is: Unicode, first byte ASCII and not A-Z, not empty
    (paths walk through such keys only: a copy of hostile data has other keys than the data)"""
    return kb != b"" and valid_utf8(kb) and kb[0] < 128 and not (65 <= kb[0] <= 90)


def containers(sh, path=(), acc=None, depth=0):
    """all (path, shape) of containers reachable through stable keys"""
    if acc is None:
        acc = []
    if sh[0] == "leaf" or depth > 6:
        return acc
    acc.append((path, sh))
    if sh[0] == "map":
        for k, x in list(sh[1].items())[:8]:
            if stable_key(k):
                containers(x, path + ({"k": hx(k)},), acc, depth + 1)
    else:
        for i, x in list(enumerate(sh[1]))[:8]:
            containers(x, path + ({"i": i},), acc, depth + 1)
    return acc


def shape_walk(sh, path):
    for s in path:
        if "k" in s:
            if sh[0] != "map" or unhx(s["k"]) not in sh[1]:
                return None
            sh = sh[1][unhx(s["k"])]
        else:
            if sh[0] != "arr" or not (0 <= s["i"] < len(sh[1])):
                return None
            sh = sh[1][s["i"]]
    return sh


def shape_apply(sh, op):
    """False when the op does not fit (wrong receiver / splice beyond the end)"""
    t = shape_walk(sh, op["p"])
    if t is None:
        return False
    o = op["o"]
    if o == "set":
        if t[0] != "map":
            return False
        t[1][unhx(op["k"])] = shape_of(op["v"])
        return True
    if t[0] != "arr":
        return False
    l = t[1]
    if o == "push":
        l.append(shape_of(op["v"]))
    elif o == "unshift":
        l.insert(0, shape_of(op["v"]))
    elif o == "pop":
        if l:
            l.pop()
    elif o == "shift":
        if l:
            l.pop(0)
    elif o == "splice":
        if op["n"] > len(l):
            return False
        del l[op["n"]:]
    else:
        return False
    return True


def gen_op(rng, sh, hostile):
    cs = containers(sh)
    if not cs:
        return None
    # shallow receivers are more likely, but every depth is reachable
    cs.sort(key=lambda c: len(c[0]))
    path, t = cs[min(int(rng.expovariate(0.7)), len(cs) - 1)] if rng.random() < 0.6 else rng.choice(cs)
    op = {"p": [dict(s) for s in path], "dot": [rng.random() < 0.5 for _ in path], "nav": rng.random() < 0.4}
    if t[0] == "map":
        op["o"] = "set"
        keys = [k for k in t[1].keys() if stable_key(k)]
        r = rng.random()
        if keys and r < 0.3:
            k = rng.choice(keys)                     # overwrite a member
        elif hostile and r < 0.6:
            k = gen_key(rng, "upper")
        else:
            k = gen_key(rng, "dom")
        op["k"] = hx(k)
        op["kdot"] = rng.random() < 0.5
        op["v"] = gen_value(rng, rng.choice([0, 0, 1, 2]), None, 3)
    else:
        n = len(t[1])
        o = rng.choice(["push", "push", "push", "unshift", "pop", "shift", "splice"])
        op["o"] = o
        if o in ("push", "unshift"):
            op["v"] = gen_value(rng, rng.choice([0, 0, 1, 2]), None, 3)
        elif o == "splice":
            op["n"] = rng.randint(0, n)
    return op


def gen_program(rng, pool, new_id, xid, hostile, closing):
    """steps over the variables of pool (id -> shape; xid = the page data, already bound); new ids from new_id()"""
    steps = []
    touched = set()

    def parse_from(u):
        v = new_id()
        pool[v] = copy.deepcopy(pool[u])
        steps.append({"i": "parse", "v": v, "u": u, "syn": rng.randrange(4)})
        return v

    def mutate(v, n):
        for _ in range(n):
            op = gen_op(rng, pool[v], hostile)
            if op is None or not shape_apply(pool[v], op):
                return
            steps.append({"i": "mut", "v": v, "op": op})
            touched.add(v)

    def out(v):
        steps.append({"i": "out", "v": v, "syn": rng.randrange(2)})

    def some_var():
        ids = sorted(pool)
        return xid if rng.random() < 0.6 else rng.choice(ids)

    for _ in range(rng.choice([1, 2, 2, 3, 3, 4])):
        r = rng.random()
        if r < 0.55:          # a working copy that is changed
            v = parse_from(some_var())
            mutate(v, rng.choice([0, 1, 1, 2, 3]))
            if rng.random() < 0.8:
                out(v)
        elif r < 0.72:        # read the same text again
            out(parse_from(some_var()))
        elif r < 0.86:        # write a value that is already there
            out(some_var())
        else:                 # change a value that is already there (the converted page data included)
            v = rng.choice(sorted(pool))
            mutate(v, rng.choice([1, 1, 2]))
            out(v)
    if closing:               # ... and whatever happened: the text of the data, parsed now, is the data
        out(parse_from(xid))
        if rng.random() < 0.4:
            out(xid)
    return steps


def gen_plan(rng, d, hostile):
    dshape = shape_of(d)
    plan = {"progs": [], "segs": []}
    api_pool = {}
    counter = [0]             # api variables are numbered 1..99; a render's variables 100*k + local number

    def new_api():
        counter[0] += 1
        return counter[0]

    nseg = rng.choice([1, 2, 2, 2, 3, 3, 4])
    for si in range(nseg):
        last = si == nseg - 1
        r = rng.random()
        if r < 0.25:
            xid = new_api()
            api_pool[xid] = copy.deepcopy(dshape)
            steps = [{"i": "conv", "v": xid}] + gen_program(rng, api_pool, new_api, xid, hostile, last or rng.random() < 0.5)
            plan["segs"].append({"k": "api", "steps": steps, "rebuild": rng.random() < 0.15})
        else:
            if plan["progs"] and rng.random() < 0.3:
                pi = rng.randrange(len(plan["progs"]))       # the same template once more
            else:
                pool = {0: copy.deepcopy(dshape)}
                loc = [0]

                def new_loc():
                    loc[0] += 1
                    return loc[0]
                plan["progs"].append(gen_program(rng, pool, new_loc, 0, hostile, last or rng.random() < 0.5))
                pi = len(plan["progs"]) - 1
            plan["segs"].append({"k": "render", "e": 1 if rng.random() < 0.3 else 0, "prog": pi, "rebuild": rng.random() < 0.15})
    return plan


def plan_valid(plan, d):
    """every variable bound before use, every mutation fits (the generator's own bookkeeping, again)"""
    dshape = shape_of(d)
    api_pool = {}

    def run(steps, pool):
        for st in steps:
            if st["i"] == "conv":
                pool[st["v"]] = copy.deepcopy(dshape)
            elif st["i"] == "parse":
                if st["u"] not in pool or st["v"] in pool:
                    return False
                pool[st["v"]] = copy.deepcopy(pool[st["u"]])
            elif st["i"] == "mut":
                if st["v"] not in pool or not shape_apply(pool[st["v"]], st["op"]):
                    return False
            elif st["v"] not in pool:
                return False
        return True
    for seg in plan["segs"]:
        if seg["k"] == "api":
            if not run(seg["steps"], api_pool):
                return False
        else:
            if not (0 <= seg["prog"] < len(plan["progs"])):
                return False
            if not run(plan["progs"][seg["prog"]], {0: copy.deepcopy(dshape)}):
                return False
    return True


class _W:
    """the values a template reaches through the page datum w (keys, path members, values: never spelled in JS)"""

    def __init__(self):
        self.slots = {}

    def put(self, prefix, tv):
        name = "%s%d" % (prefix, len(self.slots))
        self.slots[name] = tv
        return "w." + name


def js_of_program(steps, w):
    """JavaScript lines [{'js','out'}] of a render segment; variable 0 is x"""
    lines = []
    tmp = [0]
    x_touched = False

    def name(v):
        return "x" if v == 0 else "v%d" % v

    def fresh(prefix):
        tmp[0] += 1
        return "%s%d" % (prefix, tmp[0])

    for st in steps:
        if st["i"] == "parse":
            src = "JSON.stringify(%s)" % name(st["u"])
            if st["u"] == 0 and not x_touched and st["syn"] == 0:
                src = "w.t"                                   # the same text, handed in as a Go string
            lines.append({"js": "var %s = JSON.parse(%s)" % (name(st["v"]), src), "out": False})
        elif st["i"] == "out":
            lines.append({"js": ("json(%s)" if st["syn"] else "JSON.stringify(%s)") % name(st["v"]), "out": True})
        else:
            op = st["op"]
            if st["v"] == 0:
                x_touched = True
            expr = name(st["v"])
            pure = True            # identifier followed by .name only
            for sel, dot in zip(op["p"], op["dot"]):
                if "k" in sel and dot and ident_safe(unhx(sel["k"])):
                    expr += "." + unhx(sel["k"]).decode()
                elif "k" in sel:
                    expr += "[%s]" % w.put("p", t_str(unhx(sel["k"])))
                    pure = False
                else:
                    expr += "[%d]" % sel["i"]
                    pure = False
            if op["o"] == "set":
                kb = unhx(op["k"])
                val = w.put("v", op["v"])
                if pure and op["kdot"] and ident_safe(kb):
                    lines.append({"js": "%s.%s = %s" % (expr, kb.decode(), val), "out": False})
                else:
                    if op["p"]:                               # a[k] = v needs a plain variable on the left
                        a = fresh("a")
                        lines.append({"js": "var %s = %s" % (a, expr), "out": False})
                        expr = a
                    lines.append({"js": "%s[%s] = %s" % (expr, w.put("k", t_str(kb)), val), "out": False})
            else:
                if op["nav"] and op["p"]:
                    a = fresh("a")
                    lines.append({"js": "var %s = %s" % (a, expr), "out": False})
                    expr = a
                arg = w.put("v", op["v"]) if op["o"] in ("push", "unshift") else (str(op["n"]) if op["o"] == "splice" else "")
                # the result is bound, not written: only the JSON texts reach the output
                lines.append({"js": "var %s = %s.%s(%s)" % (fresh("r"), expr, op["o"], arg), "out": False})
    return lines


def realise(plan):
    """plan -> what the harness runs (w, tpls, engines, segs) and the abstract history for the judge (abs, nouts)"""
    w = _W()
    tpls = {}
    for pi, prog in enumerate(plan["progs"]):
        tpls["h%d" % pi] = js_of_program(prog, w)
    segs, abs_steps, nouts = [], [], []
    base = 0
    for seg in plan["segs"]:
        if seg["k"] == "api":
            steps = []
            for st in seg["steps"]:
                g = {"i": st["i"], "v": st["v"], "u": st.get("u", 0)}
                if st["i"] == "mut":
                    o = st["op"]
                    g["op"] = {"o": o["o"], "p": o["p"], "k": o.get("k", ""), "n": o.get("n", 0)}
                    if "v" in o:
                        g["op"]["v"] = o["v"]
                steps.append(g)
                abs_steps.append(st)
            n = sum(1 for st in seg["steps"] if st["i"] == "out")
            segs.append({"k": "api", "steps": steps, "n": n, "rebuild": seg["rebuild"]})
        else:
            prog = plan["progs"][seg["prog"]]
            base += 100                                        # this render's variables: base + local number
            abs_steps.append({"i": "conv", "v": base})
            for st in prog:
                g = dict(st, v=base + st["v"])
                if "u" in st:
                    g["u"] = base + st["u"]
                abs_steps.append(g)
            n = sum(1 for st in prog if st["i"] == "out")
            segs.append({"k": "render", "e": seg["e"], "t": "h%d" % seg["prog"], "n": n, "rebuild": seg["rebuild"]})
        nouts.append(n)
    engines = 1 + max([s.get("e", 0) for s in segs] + [0])
    return {"w": w.slots, "tpls": tpls, "engines": engines, "segs": segs}, abs_steps, nouts


def coq_sel(s):
    return b"(SKey " + cq_bytes(unhx(s["k"])) + b")" if "k" in s else b"(SIdx %d)" % s["i"]


def coq_op(op):
    o = op["o"]
    if o == "set":
        a = b"(ASet " + cq_bytes(unhx(op["k"])) + b" " + coq_of(op["v"]) + b")"
    elif o == "push":
        a = b"(APush " + coq_of(op["v"]) + b")"
    elif o == "unshift":
        a = b"(AUnshift " + coq_of(op["v"]) + b")"
    elif o == "pop":
        a = b"APop"
    elif o == "shift":
        a = b"AShift"
    else:
        a = b"(ASplice %d)" % op["n"]
    return cq_pair(cq_list([coq_sel(s) for s in op["p"]]), a)


def coq_steps(steps):
    """variables renumbered densely in order of first binding (a nat literal is unary in Coq)"""
    num = {}

    def n(v):
        return num.setdefault(v, len(num))
    res = []
    for st in steps:
        if st["i"] == "conv":
            res.append(b"HConv %d" % n(st["v"]))
        elif st["i"] == "parse":
            u = n(st["u"])
            res.append(b"HParse %d %d" % (n(st["v"]), u))
        elif st["i"] == "out":
            res.append(b"HOut %d" % n(st["v"]))
        else:
            res.append(b"HMut %d " % n(st["v"]) + coq_op(st["op"]))
    return cq_list(res)


def hist_case(rng, tier):
    """a JSON-shaped value (mostly containers, in the domain; a hostile share) and a history over it"""
    r = rng.random()
    theme = rng.choice(THEMES) if r > 0.9 else None
    if r < 0.08:
        d = gen_leaf(rng, None)
    elif r < 0.16:
        n = rng.randint(3, 12)
        d = {"t": "nest", "v": {"n": n, "kind": rng.choice(["arr", "map"]), "leaf": gen_value(rng, 2, None, 3)}}
    else:
        d = gen_value(rng, rng.choice([1, 2, 2, 3, 4]), theme, rng.choice([3, 4, 6]))
        if d["t"] not in ("arr", "map"):
            d = t_map([(b"items", t_arr([d, gen_leaf(rng, None)])), (gen_key(rng, "dom"), gen_leaf(rng, None))])
    plan = gen_plan(rng, d, theme == "upper")
    assert plan_valid(plan, d)
    return mk_hist_case(d, plan)


def mk_hist_case(d, plan):
    hist, abs_steps, nouts = realise(plan)
    return {"data": d, "plan": plan, "hist": hist, "abs": abs_steps, "nouts": nouts}


def hist_features(case):
    """(mutations, outputs, mutate-then-read-again) of a history case"""
    muts = sum(1 for st in case["abs"] if st["i"] == "mut")
    outs = sum(1 for st in case["abs"] if st["i"] == "out")
    seen_mut = False
    pattern = False
    for st in case["abs"]:
        if st["i"] == "mut":
            seen_mut = True
        elif st["i"] in ("parse", "conv") and seen_mut:
            pattern = True
    return muts, outs, pattern

# ---------------------------------------------------------------- the property


def opt_text(o):
    return cq_opt(cq_bytes(unhx(o["out"]))) if o["class"] == "ok" else b"None"


class C12(Prop):
    id = "C12"
    engine = "C12"
    judge_module = "Run.Judge_C12"
    prop_module = "Props.C12"
    prop_file = "Props/C12.v"
    coq_targets = ["Props/C12.vo", "Run/Judge_C12.vo"]
    sizes = {"quick": 1200, "thorough": 20000}
    shard = 32
    design_ref = "DESIGN.md section 6 C12"
    rule = ("generated JSON-shaped Go values (nil, bool, int and integer-valued float64 around 0, powers of ten and "
            "+-2^53, strings built from quotes, backslashes, all control characters, <>&, U+2028/9, 2/3/4-byte UTF-8, "
            "arrays/objects nested up to 60 (quick) / 200 (thorough) levels, long arrays, wide objects, nil slices and "
            "maps) plus a hostile stream (upper-case-initial and colliding keys, non-ASCII-initial keys, invalid UTF-8, "
            "integers beyond 2^53, fractions); each rendered through != JSON.stringify(x), != json(x), "
            "= JSON.stringify(x), a JSON.parse round trip in a template, and the exported functions. "
            "About 30% of the cases continue with a HISTORY in the same process (one harness process per such case): "
            "1-4 segments, each a render of a template written for the case (on one of two engines, a template "
            "possibly rendered again, the page data the same Go value or an equal one built anew) or a sequence of "
            "calls of the exported functions by a Go caller whose objects stay alive between segments; a segment "
            "parses copies of the page data or of earlier copies (JSON.parse(JSON.stringify(u)), JSON.parse of the "
            "text handed in as a Go string), mutates them - and sometimes the converted page data itself - through "
            "a.k = v, a[k] = v, push, unshift, pop, shift, splice on receivers at any depth (reached by .name, [key], "
            "[index], directly or through a variable that aliases the inner object), writes JSON.stringify / json "
            "of any variable at any point, and ends by parsing the text of the data once more and writing it. "
            "Every text of a value nothing was done to must be the text of the data byte for byte, every text of a "
            "mutated copy must read as the mutated JSON tree (decided in Coq from the abstract history). "
            "non-trivial = the value is a container or a string that needs an escape or a number of more than "
            "9 digits; a history case: at least one mutation and two outputs; distinct by SHA-1 of the case")
    trusted = [
        "encoding/json (go1.23 toolchain of the harness) is reproduced by the Gallina printer encode_go and compared "
        "byte for byte on every case; strconv's shortest formatting of an integer-valued float64 below 2^54 is taken "
        "to be its plain decimal digits (checked around +-2^53 and powers of ten by the correspondence)",
        "the Go-side oracle decoded_equal uses encoding/json's own decoder (json.Number, integers compared as text)",
        "unicode.ToLower on a non-ASCII first rune of a key is not modelled: such keys are judged unmodelled",
        "histories: gen/c12.py writes both the JavaScript of a render segment (js_of_program) and the abstract steps "
        "HConv/HParse/HMut/HOut the judge sees (coq_steps) from one plan; that the two say the same is trusted, and "
        "checked indirectly: the heap machine run_data reproduces every text Go wrote for every history "
        "(zero drift), the api segments execute the abstract steps themselves",
        "histories: the template statements a.k = v / a[k] = v / var r = a.push(v) ... reach Map.Member(\"__assign\"), "
        "Array.Push etc. as the engine compiles them; the model has the effect on the object only (Models/JsonHist.v "
        "obj_act), not the JavaScript-to-template compilation",
        "histories: output sections are separated by a line feed written by a Text node after every buffered line; "
        "a JSON text contains no raw line feed (a render whose output does not split into the expected number of "
        "sections counts as having written nothing)",
    ]
    assumptions = [
        "keys: first byte ASCII and not A-Z (or the empty key), pairwise distinct; text valid UTF-8; integers |n| <= 2^53",
        "nesting depth below 10000: beyond that encoding/json refuses (stringify panics / the render fails, no text "
        "is produced) - observed once by hand at depth 10001, not part of the generated stream",
        "numbers with a fraction are covered by the Go-side oracle only (the Gallina value space has integers)",
        "histories: keys assigned and values pushed are in the same domain; every mutation fits its receiver "
        "(steps_fit: a map for an assignment, an array for push/pop/..., splice(n) with n <= length) - a mutation "
        "that does not fit panics in Go and is not generated; paths walk through keys that survive a round trip only (not empty, Unicode, lower-case-initial ASCII first byte)",
        "histories: no two variables of a history refer to the same object except a navigation variable "
        "(var a = y[k]) and its root, which the abstract history treats as one mutation of the root: the model's "
        "variables hold the roots of disjoint object trees (each value of w is used at one place per render)",
        "histories: the process is sequential (segments one after the other); concurrent renders are other "
        "properties' subject",
    ]
    not_yet_proved = []

    hist_share = 0.3

    def generate(self, rng, n, tier):
        return [hist_case(rng, tier) if rng.random() < self.hist_share else {"data": gen_case(rng, tier)} for _ in range(n)]

    def run(self, binary, cases, tmp, tier):
        # plain cases share one harness process; every history case has a process of its own: what it observes is
        # state that survives between calls, and neither a replay nor a shrink candidate may inherit another case's
        obss = [None] * len(cases)
        plain = [i for i, c in enumerate(cases) if "hist" not in c]
        if plain:
            for i, o in zip(plain, run_harness(binary, self.engine, [{"data": cases[i]["data"]} for i in plain])):
                obss[i] = o
        hist = [i for i, c in enumerate(cases) if "hist" in c]

        def one(i):
            return run_harness(binary, self.engine, [{"data": cases[i]["data"], "hist": cases[i]["hist"]}])[0]
        with ThreadPoolExecutor(max_workers=16) as ex:
            for i, o in zip(hist, ex.map(one, hist)):
                obss[i] = o
        return obss

    def emit(self, case, obs):
        # the direct text is bound once; the other texts name it when they are byte-identical (the usual case):
        # Coq then parses and type-checks the long literal once
        d = obs["direct"]

        def ref(o):
            if d["class"] == "ok" and o["class"] == "ok" and o["out"] == d["out"]:
                return b"(Some t)"
            return opt_text(o)
        t = cq_bytes(unhx(d["out"])) if d["class"] == "ok" else b"[]"
        steps, outs = b"[]", b"[]"
        if "hist" in case:
            steps = coq_steps(case["abs"])
            texts = []
            segobs = obs.get("hist") or []
            for si, n in enumerate(case["nouts"]):
                so = segobs[si] if si < len(segobs) else None
                if so and so["class"] == "ok" and len(so.get("outs") or []) == n:
                    for h in so.get("outs") or []:
                        texts.append(b"(Some t)" if d["class"] == "ok" and h == d["out"] else cq_opt(cq_bytes(unhx(h))))
                else:
                    texts += [b"None"] * n          # the render failed / the Go caller panicked: nothing written
            outs = cq_list(texts)
        return (b"(let t : bytes := " + t + b" in {| src := " + coq_of(case["data"]) +
                b"; direct := " + (b"(Some t)" if d["class"] == "ok" else b"None") +
                b"; raw := " + ref(obs["raw"]) +
                b"; helper := " + ref(obs["helper"]) +
                b"; esc := " + ref(obs["esc"]) +
                b"; rt := " + ref(obs["rt"]) +
                b"; reparse := " + ref(obs["reparse"]) +
                b"; decoded_equal := " + cq_bool(obs["decoded_equal"]) +
                b"; steps := " + steps + b"; outs := " + outs + b" |})")

    def model_expr(self):
        return ("(option_map string_of_list_ascii (Some (stringify_data (src c))), dom_C12 (src c), modelled (src c), "
                "decode (match direct c with Some t => t | None => [] end), json_of (src c), "
                "map (option_map string_of_list_ascii) (run_data (src c) (steps c)), pristine_run (steps c) [], "
                "steps_fit (steps c) [] (json_of (src c)), steps_dom (steps c))")

    def nontrivial(self, case, obs):
        v = case["data"]
        if "hist" in case:
            muts, outs, pattern = hist_features(case)
            return muts > 0 and outs > 1
        if v["t"] in ("arr", "map", "nest"):
            return True
        if v["t"] == "str":
            s = unhx(v["v"])
            return any(c < 32 or c >= 127 or c in b'"\\<>&' for c in s)
        if v["t"] in ("int", "float"):
            return len(v["v"].lstrip("-")) > 9
        return False

    def sample(self, case, obs):
        txt = unhx(obs["direct"]["out"]).decode("utf-8", "replace") if obs["direct"]["class"] == "ok" else None
        p = plain(case["data"])
        s = json.dumps(p, ensure_ascii=True)
        res = {"data": p if len(s) < 400 else s[:400] + "...", "go_text": txt if txt is None or len(txt) < 400 else txt[:400] + "...",
               "decoded_equal": obs["decoded_equal"], "parsed_kind": obs.get("parsed_kind")}
        if "hist" in case:
            res["history"] = {"templates": {k: [l["js"] for l in v] for k, v in case["hist"]["tpls"].items()},
                              "segments": [(g["k"], g.get("e"), g.get("t"), g["rebuild"]) for g in case["hist"]["segs"]],
                              "go_wrote": [[unhx(h).decode("utf-8", "replace")[:200] for h in (so.get("outs") or [])]
                                           for so in (obs.get("hist") or [])]}
        return res

    def shrink(self, case):
        v = case["data"]
        if "hist" in case:
            yield from self._shrink_hist(case)
            return
        if v["t"] == "nest":
            yield {"data": expand(v)}
            return
        for c in self._shrink(v):
            yield {"data": c}

    def _shrink_hist(self, case):
        d, plan = case["data"], case["plan"]

        def cand(d2, plan2):
            # drop templates nobody renders any more, keep the numbering dense
            used = sorted({g["prog"] for g in plan2["segs"] if g["k"] == "render"})
            ren = {old: new for new, old in enumerate(used)}
            p3 = {"progs": [plan2["progs"][i] for i in used],
                  "segs": [dict(g, prog=ren[g["prog"]]) if g["k"] == "render" else g for g in plan2["segs"]]}
            if p3["segs"] and plan_valid(p3, d2):
                return mk_hist_case(d2, p3)
            return None
        out = []
        segs = plan["segs"]
        for i in range(len(segs)):                                  # one segment less
            out.append(cand(d, dict(plan, segs=segs[:i] + segs[i + 1:])))
        for i, g in enumerate(segs):                                # plainer segments
            for key, val in (("rebuild", False), ("e", 0)):
                if g.get(key):
                    out.append(cand(d, dict(plan, segs=segs[:i] + [dict(g, **{key: val})] + segs[i + 1:])))

        def fewer(steps):
            for j, st in enumerate(steps):
                if st["i"] in ("mut", "out"):
                    yield steps[:j] + steps[j + 1:]
                elif st["i"] == "parse":                            # a variable and everything done with it
                    dead = {st["v"]}
                    keep = []
                    for s2 in steps:
                        if s2["v"] in dead or (s2["i"] == "parse" and s2["u"] in dead):
                            dead.add(s2["v"])
                        else:
                            keep.append(s2)
                    yield keep
            for j, st in enumerate(steps):                          # a mutation nearer to the root / of a smaller value
                if st["i"] == "mut":
                    op = st["op"]
                    if "v" in op:
                        for y in list(self._shrink(op["v"]))[:6]:
                            yield steps[:j] + [dict(st, op=dict(op, v=y))] + steps[j + 1:]
        for pi, prog in enumerate(plan["progs"]):
            for p2 in fewer(prog):
                out.append(cand(d, dict(plan, progs=plan["progs"][:pi] + [p2] + plan["progs"][pi + 1:])))
        for i, g in enumerate(segs):
            if g["k"] == "api":
                for s2 in fewer(g["steps"]):
                    out.append(cand(d, dict(plan, segs=segs[:i] + [dict(g, steps=s2)] + segs[i + 1:])))
        dd = expand(d) if d["t"] == "nest" else d
        for d2 in list(self._shrink(dd))[:60]:                      # smaller data (the plan must still fit it)
            out.append(cand(d2, plan))
        for c in out:
            if c is not None:
                yield c

    def _shrink(self, v):
        t = v["t"]
        if t == "arr":
            l = v["v"]
            if len(l) > 3:
                yield t_arr(l[:len(l) // 2])
                yield t_arr(l[len(l) // 2:])
            for x in l:
                yield x
            for i in range(len(l)):
                yield t_arr(l[:i] + l[i + 1:])
            for i, x in enumerate(l):
                for y in self._shrink(x):
                    yield t_arr(l[:i] + [y] + l[i + 1:])
        elif t == "map":
            m = v["v"]
            if len(m) > 3:
                yield {"t": "map", "v": m[:len(m) // 2]}
                yield {"t": "map", "v": m[len(m) // 2:]}
            if len(m) > 1:
                for kv in m:
                    yield {"t": "map", "v": [kv]}
            for _, x in m:
                yield x
            for i in range(len(m)):
                yield {"t": "map", "v": m[:i] + m[i + 1:]}
            for i, (k, x) in enumerate(m):
                kb = unhx(k)
                for j in range(len(kb)):
                    nk = hx(kb[:j] + kb[j + 1:])
                    if all(nk != k2 for k2, _ in m):
                        yield {"t": "map", "v": m[:i] + [[nk, x]] + m[i + 1:]}
                for y in self._shrink(x):
                    yield {"t": "map", "v": m[:i] + [[k, y]] + m[i + 1:]}
        elif t == "str":
            s = unhx(v["v"])
            if len(s) > 8:
                yield t_str(s[:len(s) // 2])
                yield t_str(s[len(s) // 2:])
            for j in range(len(s)):
                yield t_str(s[:j] + s[j + 1:])
        elif t in ("int", "float"):
            try:
                n = int(v["v"])
            except ValueError:
                return
            for m in (0, 1, n // 2, n // 10):
                if abs(m) < abs(n):
                    yield dict(v, v=str(m))
        elif t in ("nilarr", "nilmap", "bool"):
            yield t_nil()

    def distribution(self, cases, obss):
        d = {"top": {}, "depth": {}, "kinds": {}, "in_domain_by_generator": 0, "text_bytes": {"<64": 0, "<512": 0, "<4096": 0, ">=4096": 0},
             "strings_needing_escape": 0, "with_ls_ps": 0, "with_astral": 0, "with_control": 0, "with_NUL": 0,
             "invalid_utf8": 0, "upper_initial_key": 0, "nonascii_initial_key": 0, "empty_key": 0,
             "int_abs>=2^52": 0, "int_abs>2^53": 0, "fraction_or_far_number": 0, "empty_array": 0, "empty_object": 0,
             "nil_slice_or_map": 0, "go_decoded_equal": 0, "go_stringify_failed": 0, "parsed_kind": {},
             "histories": {"cases": 0, "segments": {"render": 0, "api": 0}, "second_engine": 0, "template_rendered_again": 0,
                           "page_data_rebuilt": 0, "mutations": {}, "mutation_depth": {}, "mutated_page_data_itself": 0,
                           "mutation_then_parse_again": 0, "steps": {"conv": 0, "parse": 0, "mut": 0, "out": 0},
                           "parse_of_text_given_as_string": 0, "go_segment_failed": 0}}
        for c, o in zip(cases, obss):
            if "hist" in c:
                h = d["histories"]
                h["cases"] += 1
                progs = [g["prog"] for g in c["plan"]["segs"] if g["k"] == "render"]
                for g in c["plan"]["segs"]:
                    h["segments"][g["k"]] += 1
                h["second_engine"] += any(g.get("e") for g in c["plan"]["segs"])
                h["template_rendered_again"] += len(progs) != len(set(progs))
                h["page_data_rebuilt"] += any(g["rebuild"] for g in c["plan"]["segs"])
                xs = {st["v"] for st in c["abs"] if st["i"] == "conv"}
                for st in c["abs"]:
                    h["steps"][st["i"]] += 1
                    if st["i"] == "mut":
                        h["mutations"][st["op"]["o"]] = h["mutations"].get(st["op"]["o"], 0) + 1
                        k = str(len(st["op"]["p"]))
                        h["mutation_depth"][k] = h["mutation_depth"].get(k, 0) + 1
                h["mutated_page_data_itself"] += any(st["i"] == "mut" and st["v"] in xs for st in c["abs"])
                h["mutation_then_parse_again"] += hist_features(c)[2]
                h["parse_of_text_given_as_string"] += any("JSON.parse(w.t)" in l["js"] for t in c["hist"]["tpls"].values() for l in t)
                h["go_segment_failed"] += any(so["class"] != "ok" for so in (o.get("hist") or []))
            v = expand(c["data"])
            d["top"][c["data"]["t"]] = d["top"].get(c["data"]["t"], 0) + 1
            dp = depth(c["data"])
            b = "0" if dp == 0 else "1-2" if dp <= 2 else "3-6" if dp <= 6 else "7-20" if dp <= 20 else ">20"
            d["depth"][b] = d["depth"].get(b, 0) + 1
            flags = set()
            indom = True
            for x in walk(v):
                d["kinds"][x["t"]] = d["kinds"].get(x["t"], 0) + 1
                if x["t"] == "str":
                    s = unhx(x["v"])
                    if not valid_utf8(s):
                        flags.add("invalid_utf8")
                        indom = False
                    if any(ch < 32 or ch in b'"\\<>&' for ch in s):
                        flags.add("strings_needing_escape")
                    if any(ch < 32 for ch in s):
                        flags.add("with_control")
                    if 0 in s:
                        flags.add("with_NUL")
                    if b"\xe2\x80\xa8" in s or b"\xe2\x80\xa9" in s:
                        flags.add("with_ls_ps")
                    if any(ch >= 0xf0 for ch in s):
                        flags.add("with_astral")
                elif x["t"] in ("int", "float"):
                    cl = ("int", int(x["v"])) if x["t"] == "int" else float_class(x["v"])
                    if cl[0] == "other" or abs(cl[1]) > TWO54:
                        flags.add("fraction_or_far_number")
                        if cl[0] != "other":
                            indom = False
                    else:
                        if abs(cl[1]) >= 2 ** 52:
                            flags.add("int_abs>=2^52")
                        if abs(cl[1]) > TWO53:
                            flags.add("int_abs>2^53")
                            indom = False
                elif x["t"] == "arr" and not x["v"]:
                    flags.add("empty_array")
                elif x["t"] == "map":
                    if not x["v"]:
                        flags.add("empty_object")
                    for k, _ in x["v"]:
                        kb = unhx(k)
                        if not kb:
                            flags.add("empty_key")
                        elif kb[0] >= 128:
                            flags.add("nonascii_initial_key")
                            indom = False
                        elif 65 <= kb[0] <= 90:
                            flags.add("upper_initial_key")
                            indom = False
                        if not valid_utf8(kb):
                            flags.add("invalid_utf8")
                            indom = False
                elif x["t"] in ("nilarr", "nilmap"):
                    flags.add("nil_slice_or_map")
            for f in flags:
                d[f] += 1
            d["in_domain_by_generator"] += indom
            if o["direct"]["class"] == "ok":
                n = len(o["direct"]["out"]) // 2
                d["text_bytes"]["<64" if n < 64 else "<512" if n < 512 else "<4096" if n < 4096 else ">=4096"] += 1
            else:
                d["go_stringify_failed"] += 1
            d["go_decoded_equal"] += bool(o["decoded_equal"])
            pk = o.get("parsed_kind") or "-"
            d["parsed_kind"][pk] = d["parsed_kind"].get(pk, 0) + 1
        return d


PROP = C12()
