# C12 — data handed to the browser as JSON is valid JSON and equals the source data.
#
# A case is one Go value in the harness's typed format
#   {"t": "nil|bool|int|float|str|arr|nilarr|map|nilmap|nest", "v": ...}      (see harness/c12.go)
# The harness stringifies it directly and through four templates, re-parses it, and decodes the text with
# encoding/json as a Go-side oracle; Run/Judge_C12.v compares every text with the Gallina printer
# encode_go and reads Go's own text back with the Gallina reader.
import math
from common import *

TWO53 = 2 ** 53
TWO54 = 2 ** 54

# ---------------------------------------------------------------- typed values


def t_nil():
    return {"t": "nil"}


def t_bool(b):
    return {"t": "bool", "v": bool(b)}


def t_int(n):
    return {"t": "int", "v": str(n)}


def t_float(text):
    return {"t": "float", "v": text}


def t_str(b):
    return {"t": "str", "v": hx(b)}


def t_arr(l):
    return {"t": "arr", "v": l}


def t_map(kvs):
    """kvs: list of (bytes key, typed value); later duplicates win, as in a Go map literal"""
    seen = {}
    for k, v in kvs:
        seen[bytes(k)] = v
    return {"t": "map", "v": [[hx(k), v] for k, v in seen.items()]}


def expand(v):
    """nest -> explicit arr/map (for the Gallina term and for measures)"""
    if v["t"] == "nest":
        cur = expand(v["v"]["leaf"])
        for _ in range(v["v"]["n"]):
            cur = t_map([(b"a", cur)]) if v["v"]["kind"] == "map" else t_arr([cur])
        return cur
    if v["t"] == "arr":
        return {"t": "arr", "v": [expand(x) for x in v["v"]]}
    if v["t"] == "map":
        return {"t": "map", "v": [[k, expand(x)] for k, x in v["v"]]}
    return v


def float_class(text):
    """('int', n) for an integer-valued float64 the model covers, else ('other',)"""
    f = float(text)
    if math.isinf(f) or math.isnan(f):
        return ("other",)
    if f == 0.0 and math.copysign(1.0, f) < 0:
        return ("other",)          # minus zero prints as -0
    if f == math.floor(f) and abs(f) <= TWO54:
        return ("int", int(f))
    return ("other",)


def coq_of(v):
    t = v["t"]
    if t == "nil":
        return b"GNil"
    if t == "bool":
        return b"(GBool " + cq_bool(v["v"]) + b")"
    if t == "int":
        return b"(GInt " + cq_Z(int(v["v"])) + b")"
    if t == "float":
        c = float_class(v["v"])
        return b"(GInt " + cq_Z(c[1]) + b")" if c[0] == "int" else b"GOther"
    if t == "str":
        return b"(GStr " + cq_bytes(unhx(v["v"])) + b")"
    if t == "nilarr":
        return b"(GArr [])"
    if t == "nilmap":
        return b"(GMap [])"
    if t == "arr":
        return b"(GArr " + cq_list([coq_of(x) for x in v["v"]]) + b")"
    if t == "map":
        return b"(GMap " + cq_list([cq_pair(cq_bytes(unhx(k)), coq_of(x)) for k, x in v["v"]]) + b")"
    if t == "nest":
        return coq_of(expand(v))
    raise ValueError(t)


def plain(v):
    """JSON-printable rendering for evidence samples"""
    t = v["t"]
    if t == "nil":
        return None
    if t == "bool":
        return v["v"]
    if t == "int":
        return int(v["v"])
    if t == "float":
        return float(v["v"])
    if t == "str":
        return unhx(v["v"]).decode("utf-8", "replace")
    if t == "nilarr":
        return []
    if t == "nilmap":
        return {}
    if t == "arr":
        return [plain(x) for x in v["v"]]
    if t == "map":
        return {unhx(k).decode("utf-8", "replace"): plain(x) for k, x in v["v"]}
    if t == "nest":
        return {"nest": v["v"]["n"], "kind": v["v"]["kind"], "leaf": plain(v["v"]["leaf"])}
    raise ValueError(t)


def walk(v):
    yield v
    if v["t"] == "arr":
        for x in v["v"]:
            yield from walk(x)
    elif v["t"] == "map":
        for _, x in v["v"]:
            yield from walk(x)
    elif v["t"] == "nest":
        yield from walk(v["v"]["leaf"])


def depth(v):
    if v["t"] == "arr":
        return 1 + max([depth(x) for x in v["v"]] + [0])
    if v["t"] == "map":
        return 1 + max([depth(x) for _, x in v["v"]] + [0])
    if v["t"] == "nest":
        return v["v"]["n"] + depth(v["v"]["leaf"])
    return 0


def valid_utf8(b):
    try:
        b.decode("utf-8")
        return True
    except UnicodeDecodeError:
        return False


# ---------------------------------------------------------------- text material

WORDS = [b"a", b"x", b"id", b"name", b"hello world", b"0", b"42", b"true", b"null", b" ", b"", b"price",
         b"The quick brown fox"]
QUOTES = [b'"', b'\\', b'\\"', b'"\\', b"'", b'\\\\', b'\\n', b'\\u0041', b'\\u', b'/', b'\\/', b'""', b'"}', b'","a":"']
CONTROL = [bytes([i]) for i in range(0, 32)] + [b"\x7f", b"\r\n", b"\x00\x00", b"\x1b[0m"]
MARKUP = [b"<", b">", b"&", b"</script>", b"<!--", b"-->", b"<script>alert(1)</script>", b"&amp;", b"&#34;", b"&lt;",
          b"]]>", b"<b>&</b>"]
UNI2 = ["\u00e9", "\u00fc", "\u00df", "\u00f1", "\u00a1", "\u0080", "\u07ff", "\u03a9", "\u0436", "\u0130", "\u01c5"]
UNI3 = ["\u20ac", "\u65e5\u672c\u8a9e", "\u0800", "\uffff", "\ufffd", "\u2027", "\u2028", "\u2029", "\u202a",
        "\u2028\u2029", "\ud7ff", "\ue000", "\ufeff", "\u200b", "\ud55c", "\u20a8", "\u20a9", "a\u2028b"]
UNI4 = ["\U0001f600", "\U0001d4b3", "\U00010000", "\U0010ffff", "\U0001f468\u200d\U0001f469\u200d\U0001f467"]
# byte strings that are not UTF-8: lone continuation, truncated sequences, overlong forms, surrogates, > U+10FFFF
BAD_UTF8 = [b"\x80", b"\xbf", b"\xc3", b"\xe2\x80", b"\xf0\x9f\x98", b"\xc0\x80", b"\xc1\xbf", b"\xe0\x80\x80",
            b"\xed\xa0\x80", b"\xed\xbf\xbf", b"\xf0\x80\x80\x80", b"\xf4\x90\x80\x80", b"\xf5\x80\x80\x80", b"\xff",
            b"\xfe", b"\xe2\x80\x28", b"\xe2\x28\xa8", b"a\xffb", b"\xc3\x28", b"\xe2\x82", b"\xf8\x88\x80\x80\x80"]


def gen_text(rng, hostile=False, maxparts=6):
    n = rng.choice([0, 1, 1, 2, 2, 3, 4, maxparts])
    parts = []
    for _ in range(n):
        r = rng.random()
        if r < 0.22:
            parts.append(rng.choice(WORDS))
        elif r < 0.38:
            parts.append(rng.choice(QUOTES))
        elif r < 0.52:
            parts.append(rng.choice(CONTROL))
        elif r < 0.64:
            parts.append(rng.choice(MARKUP))
        elif r < 0.74:
            parts.append(rng.choice(UNI2).encode("utf-8"))
        elif r < 0.88:
            parts.append(rng.choice(UNI3).encode("utf-8"))
        elif r < 0.95:
            parts.append(rng.choice(UNI4).encode("utf-8"))
        else:
            parts.append(bytes(rng.randrange(32, 127) for _ in range(rng.randint(1, 12))))
        if hostile and rng.random() < 0.5:
            parts.append(rng.choice(BAD_UTF8))
    return b"".join(parts)


LOWER = b"abcdefghijklmnopqrstuvwxyz"
KEY_HEADS = [b"a", b"b", b"c", b"id", b"x", b"y", b"key", b"name", b"value", b"items", b"z", b"k", b"n", b"data",
             b"_p", b"$ref", b"0", b"9z", b"-", b" ", b"@type", b"a.b", b"a b", b"q"]


def gen_key(rng, mode):
    """mode: 'dom' lower-case-initial ASCII head + any Unicode tail; 'upper'; 'nonascii'; 'bad' (not UTF-8)"""
    r = rng.random()
    if mode == "upper":
        head = bytes([rng.randrange(65, 91)]) + rng.choice([b"", b"oo", b"ID", b"ame"])
        return head + (gen_text(rng, maxparts=2) if r < 0.3 else b"")
    if mode == "nonascii":
        return rng.choice(["\u00e9", "\u00c9", "\u00df", "\u65e5", "\u0130", "\u03a9mega", "\U0001f600", "\u2028", "\u01c5x"]).encode("utf-8") + rng.choice([b"", b"x", b"Y"])
    if mode == "bad":
        return rng.choice([b"k", b"", b"a"]) + rng.choice(BAD_UTF8) + rng.choice([b"", b"z"])
    if r < 0.04:
        return b""
    head = rng.choice(KEY_HEADS) if r < 0.7 else bytes([rng.choice(LOWER)]) + bytes(rng.choice(LOWER + b"ABZ019_") for _ in range(rng.randint(0, 6)))
    if rng.random() < 0.45:
        head += gen_text(rng, maxparts=3)
    return head


EDGE_INTS = [0, 1, -1, 2, 7, 10, -10, 99, 100, 255, 256, 1000, 65535, 65536, 2 ** 31 - 1, 2 ** 31, -2 ** 31, 2 ** 32,
             10 ** 9, 10 ** 10, 12345678901, 10 ** 15, 10 ** 15 + 1, 999999999999999, 10 ** 16 // 2,
             TWO53 - 2, TWO53 - 1, TWO53, -(TWO53 - 1), -TWO53, 4503599627370496, 4503599627370497, 9007199254740990,
             1234567890123456, 9000000000000000, 8999999999999999, 123456789012345]
OUT_INTS = [TWO53 + 1, TWO53 + 2, TWO53 + 3, -(TWO53 + 1), -(TWO53 + 3), TWO54 - 1, TWO54, -TWO54, 10 ** 16 + 1, 10 ** 16 + 3,
            9007199254740995, 12345678901234567, 17999999999999999]
FAR_INTS = [TWO54 + 1, 2 ** 62, 2 ** 63 - 1, -2 ** 63, 10 ** 18, 10 ** 17 + 1]
FRACS = ["1.5", "-0.25", "0.1", "3.141592653589793", "1e-7", "1e21", "1e22", "-0.0", "123456.789", "1e300", "5e-324",
         "0.000001", "0.0000001", "1e20", "1.7976931348623157e308", "36028797018963968"]


# hostile themes: one per case, so that a case leaves the domain (or the model) for one reason
#   upper: upper-case-initial keys; collide: Foo/foo pairs; bad: bytes that are not UTF-8; big: integers beyond 2^53
#   (modelled up to 2^54); far: integers beyond 2^54 and fractions (not modelled); nonascii: keys with a non-ASCII
#   first rune (not modelled)
THEMES = ["upper", "upper", "collide", "collide", "bad", "bad", "big", "big", "far", "nonascii"]


def gen_int(rng, theme):
    r = rng.random()
    if theme == "big" and r < 0.5:
        return rng.choice(OUT_INTS) if r < 0.35 else rng.choice([1, -1]) * rng.randrange(TWO53 + 1, TWO54 + 1)
    if theme == "far" and r < 0.3:
        return rng.choice(FAR_INTS)
    if r < 0.35:
        return rng.randint(-20, 120)
    if r < 0.65:
        return rng.choice(EDGE_INTS) * rng.choice([1, 1, -1])
    if r < 0.8:
        return rng.choice([1, -1]) * rng.randrange(0, 10 ** rng.randint(1, 15))
    if r < 0.93:
        return rng.choice([1, -1]) * (TWO53 - rng.randrange(0, 1000))
    return rng.choice([1, -1]) * rng.randrange(2 ** 52, TWO53 + 1)


def gen_number(rng, theme):
    r = rng.random()
    if r < (0.3 if theme == "far" else 0.002):
        return t_float(rng.choice(FRACS))
    n = gen_int(rng, theme)
    if rng.random() < 0.5 and abs(n) < 2 ** 63 - 1024:
        return t_float(str(n))      # float64 holding an integer
    return t_int(max(-2 ** 63, min(2 ** 63 - 1, n)))


def gen_leaf(rng, theme):
    r = rng.random()
    if r < 0.08:
        return t_nil()
    if r < 0.16:
        return t_bool(rng.random() < 0.5)
    if r < 0.45:
        return gen_number(rng, theme)
    if r < 0.48:
        return {"t": "nilarr"} if rng.random() < 0.5 else {"t": "nilmap"}
    return t_str(gen_text(rng, theme == "bad"))


def gen_value(rng, d, theme, wide):
    if d <= 0 or rng.random() < 0.3:
        return gen_leaf(rng, theme)
    r = rng.random()
    if r < 0.45:
        n = rng.choice([0, 1, 2, 2, 3, 4, wide])
        return t_arr([gen_value(rng, d - 1, theme, max(2, wide // 2)) for _ in range(n)])
    n = rng.choice([0, 1, 2, 2, 3, 4, wide])
    kvs = []
    for _ in range(n):
        mode = "dom"
        if theme in ("upper", "nonascii", "bad") and rng.random() < 0.4:
            mode = theme
        k = gen_key(rng, mode)
        kvs.append((k, gen_value(rng, d - 1, theme, max(2, wide // 2))))
        if theme == "collide" and rng.random() < 0.5 and k[:1].isalpha():
            kvs.append((k[:1].swapcase() + k[1:], gen_leaf(rng, None)))       # Foo / foo
    if rng.random() < 0.5:
        rng.shuffle(kvs)
    return t_map(kvs)


def gen_case(rng, tier):
    r = rng.random()
    big = tier == "thorough"
    if r < 0.06:      # long arrays / wide objects of small things
        n = rng.randint(30, 400 if big else 150)
        if rng.random() < 0.5:
            return t_arr([gen_leaf(rng, None) if rng.random() < 0.8 else t_arr([]) for _ in range(n)])
        n = min(n, 120 if big else 60)
        return t_map([(gen_key(rng, "dom") + str(i).encode(), gen_leaf(rng, None)) for i in range(n)])
    if r < 0.12:      # deep nesting
        n = rng.randint(8, 200 if big else 60)
        return {"t": "nest", "v": {"n": n, "kind": rng.choice(["arr", "map"]), "leaf": gen_value(rng, 2, None, 3)}}
    if r < 0.2:       # one string, long or nasty
        parts = [gen_text(rng, False, 8) for _ in range(rng.randint(1, 20 if big else 8))]
        return t_str(b"".join(parts))
    if r < 0.27:      # a bare leaf
        return gen_leaf(rng, None)
    theme = rng.choice(THEMES) if r > 0.84 else None
    return gen_value(rng, rng.choice([1, 2, 3, 4, 6 if not big else 10]), theme, rng.choice([3, 5, 8, 12]))


# ---------------------------------------------------------------- the property


def opt_text(o):
    return cq_opt(cq_bytes(unhx(o["out"]))) if o["class"] == "ok" else b"None"


class C12(Prop):
    id = "C12"
    engine = "C12"
    judge_module = "Run.Judge_C12"
    prop_module = "Props.C12"
    prop_file = "Props/C12.v"
    coq_targets = ["Props/C12.vo", "Run/Judge_C12.vo"]
    sizes = {"quick": 1200, "thorough": 20000}
    shard = 32
    design_ref = "DESIGN.md section 6 C12"
    rule = ("generated JSON-shaped Go values (nil, bool, int and integer-valued float64 around 0, powers of ten and "
            "+-2^53, strings built from quotes, backslashes, all control characters, <>&, U+2028/9, 2/3/4-byte UTF-8, "
            "arrays/objects nested up to 60 (quick) / 200 (thorough) levels, long arrays, wide objects, nil slices and "
            "maps) plus a hostile stream (upper-case-initial and colliding keys, non-ASCII-initial keys, invalid UTF-8, "
            "integers beyond 2^53, fractions); each rendered through != JSON.stringify(x), != json(x), "
            "= JSON.stringify(x), a JSON.parse round trip in a template, and the exported functions; "
            "non-trivial = the value is a container or a string that needs an escape or a number of more than "
            "9 digits; distinct by SHA-1 of the case")
    trusted = [
        "encoding/json (go1.23 toolchain of the harness) is reproduced by the Gallina printer encode_go and compared "
        "byte for byte on every case; strconv's shortest formatting of an integer-valued float64 below 2^54 is taken "
        "to be its plain decimal digits (checked around +-2^53 and powers of ten by the correspondence)",
        "the Go-side oracle decoded_equal uses encoding/json's own decoder (json.Number, integers compared as text)",
        "unicode.ToLower on a non-ASCII first rune of a key is not modelled: such keys are judged unmodelled",
    ]
    assumptions = [
        "keys: first byte ASCII and not A-Z (or the empty key), pairwise distinct; text valid UTF-8; integers |n| <= 2^53",
        "nesting depth below 10000: beyond that encoding/json refuses (stringify panics / the render fails, no text "
        "is produced) - observed once by hand at depth 10001, not part of the generated stream",
        "numbers with a fraction are covered by the Go-side oracle only (the Gallina value space has integers)",
    ]
    not_yet_proved = []

    def generate(self, rng, n, tier):
        return [{"data": gen_case(rng, tier)} for _ in range(n)]

    def emit(self, case, obs):
        # the direct text is bound once; the other texts name it when they are byte-identical (the usual case):
        # Coq then parses and type-checks the long literal once
        d = obs["direct"]

        def ref(o):
            if d["class"] == "ok" and o["class"] == "ok" and o["out"] == d["out"]:
                return b"(Some t)"
            return opt_text(o)
        t = cq_bytes(unhx(d["out"])) if d["class"] == "ok" else b"[]"
        return (b"(let t : bytes := " + t + b" in {| src := " + coq_of(case["data"]) +
                b"; direct := " + (b"(Some t)" if d["class"] == "ok" else b"None") +
                b"; raw := " + ref(obs["raw"]) +
                b"; helper := " + ref(obs["helper"]) +
                b"; esc := " + ref(obs["esc"]) +
                b"; rt := " + ref(obs["rt"]) +
                b"; reparse := " + ref(obs["reparse"]) +
                b"; decoded_equal := " + cq_bool(obs["decoded_equal"]) + b" |})")

    def model_expr(self):
        return ("(option_map string_of_list_ascii (Some (stringify_data (src c))), dom_C12 (src c), modelled (src c), "
                "decode (match direct c with Some t => t | None => [] end), json_of (src c))")

    def nontrivial(self, case, obs):
        v = case["data"]
        if v["t"] in ("arr", "map", "nest"):
            return True
        if v["t"] == "str":
            s = unhx(v["v"])
            return any(c < 32 or c >= 127 or c in b'"\\<>&' for c in s)
        if v["t"] in ("int", "float"):
            return len(v["v"].lstrip("-")) > 9
        return False

    def sample(self, case, obs):
        txt = unhx(obs["direct"]["out"]).decode("utf-8", "replace") if obs["direct"]["class"] == "ok" else None
        p = plain(case["data"])
        s = json.dumps(p, ensure_ascii=True)
        return {"data": p if len(s) < 400 else s[:400] + "...", "go_text": txt if txt is None or len(txt) < 400 else txt[:400] + "...",
                "decoded_equal": obs["decoded_equal"], "parsed_kind": obs.get("parsed_kind")}

    def shrink(self, case):
        v = case["data"]
        if v["t"] == "nest":
            yield {"data": expand(v)}
            return
        for c in self._shrink(v):
            yield {"data": c}

    def _shrink(self, v):
        t = v["t"]
        if t == "arr":
            l = v["v"]
            if len(l) > 3:
                yield t_arr(l[:len(l) // 2])
                yield t_arr(l[len(l) // 2:])
            for x in l:
                yield x
            for i in range(len(l)):
                yield t_arr(l[:i] + l[i + 1:])
            for i, x in enumerate(l):
                for y in self._shrink(x):
                    yield t_arr(l[:i] + [y] + l[i + 1:])
        elif t == "map":
            m = v["v"]
            if len(m) > 3:
                yield {"t": "map", "v": m[:len(m) // 2]}
                yield {"t": "map", "v": m[len(m) // 2:]}
            if len(m) > 1:
                for kv in m:
                    yield {"t": "map", "v": [kv]}
            for _, x in m:
                yield x
            for i in range(len(m)):
                yield {"t": "map", "v": m[:i] + m[i + 1:]}
            for i, (k, x) in enumerate(m):
                kb = unhx(k)
                for j in range(len(kb)):
                    nk = hx(kb[:j] + kb[j + 1:])
                    if all(nk != k2 for k2, _ in m):
                        yield {"t": "map", "v": m[:i] + [[nk, x]] + m[i + 1:]}
                for y in self._shrink(x):
                    yield {"t": "map", "v": m[:i] + [[k, y]] + m[i + 1:]}
        elif t == "str":
            s = unhx(v["v"])
            if len(s) > 8:
                yield t_str(s[:len(s) // 2])
                yield t_str(s[len(s) // 2:])
            for j in range(len(s)):
                yield t_str(s[:j] + s[j + 1:])
        elif t in ("int", "float"):
            try:
                n = int(v["v"])
            except ValueError:
                return
            for m in (0, 1, n // 2, n // 10):
                if abs(m) < abs(n):
                    yield dict(v, v=str(m))
        elif t in ("nilarr", "nilmap", "bool"):
            yield t_nil()

    def distribution(self, cases, obss):
        d = {"top": {}, "depth": {}, "kinds": {}, "in_domain_by_generator": 0, "text_bytes": {"<64": 0, "<512": 0, "<4096": 0, ">=4096": 0},
             "strings_needing_escape": 0, "with_ls_ps": 0, "with_astral": 0, "with_control": 0, "with_NUL": 0,
             "invalid_utf8": 0, "upper_initial_key": 0, "nonascii_initial_key": 0, "empty_key": 0,
             "int_abs>=2^52": 0, "int_abs>2^53": 0, "fraction_or_far_number": 0, "empty_array": 0, "empty_object": 0,
             "nil_slice_or_map": 0, "go_decoded_equal": 0, "go_stringify_failed": 0, "parsed_kind": {}}
        for c, o in zip(cases, obss):
            v = expand(c["data"])
            d["top"][c["data"]["t"]] = d["top"].get(c["data"]["t"], 0) + 1
            dp = depth(c["data"])
            b = "0" if dp == 0 else "1-2" if dp <= 2 else "3-6" if dp <= 6 else "7-20" if dp <= 20 else ">20"
            d["depth"][b] = d["depth"].get(b, 0) + 1
            flags = set()
            indom = True
            for x in walk(v):
                d["kinds"][x["t"]] = d["kinds"].get(x["t"], 0) + 1
                if x["t"] == "str":
                    s = unhx(x["v"])
                    if not valid_utf8(s):
                        flags.add("invalid_utf8")
                        indom = False
                    if any(ch < 32 or ch in b'"\\<>&' for ch in s):
                        flags.add("strings_needing_escape")
                    if any(ch < 32 for ch in s):
                        flags.add("with_control")
                    if 0 in s:
                        flags.add("with_NUL")
                    if b"\xe2\x80\xa8" in s or b"\xe2\x80\xa9" in s:
                        flags.add("with_ls_ps")
                    if any(ch >= 0xf0 for ch in s):
                        flags.add("with_astral")
                elif x["t"] in ("int", "float"):
                    cl = ("int", int(x["v"])) if x["t"] == "int" else float_class(x["v"])
                    if cl[0] == "other" or abs(cl[1]) > TWO54:
                        flags.add("fraction_or_far_number")
                        if cl[0] != "other":
                            indom = False
                    else:
                        if abs(cl[1]) >= 2 ** 52:
                            flags.add("int_abs>=2^52")
                        if abs(cl[1]) > TWO53:
                            flags.add("int_abs>2^53")
                            indom = False
                elif x["t"] == "arr" and not x["v"]:
                    flags.add("empty_array")
                elif x["t"] == "map":
                    if not x["v"]:
                        flags.add("empty_object")
                    for k, _ in x["v"]:
                        kb = unhx(k)
                        if not kb:
                            flags.add("empty_key")
                        elif kb[0] >= 128:
                            flags.add("nonascii_initial_key")
                            indom = False
                        elif 65 <= kb[0] <= 90:
                            flags.add("upper_initial_key")
                            indom = False
                        if not valid_utf8(kb):
                            flags.add("invalid_utf8")
                            indom = False
                elif x["t"] in ("nilarr", "nilmap"):
                    flags.add("nil_slice_or_map")
            for f in flags:
                d[f] += 1
            d["in_domain_by_generator"] += indom
            if o["direct"]["class"] == "ok":
                n = len(o["direct"]["out"]) // 2
                d["text_bytes"]["<64" if n < 64 else "<512" if n < 512 else "<4096" if n < 4096 else ">=4096"] += 1
            else:
                d["go_stringify_failed"] += 1
            d["go_decoded_equal"] += bool(o["decoded_equal"])
            pk = o.get("parsed_kind") or "-"
            d["parsed_kind"][pk] = d["parsed_kind"].get(pk, 0) + 1
        return d


PROP = C12()
