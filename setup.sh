#!/bin/bash
# Offline setup: build the Coq development (full .vo build) and warm the Go build cache.
set -e
cd "$(dirname "$0")"
export GOFLAGS=-mod=mod GOPROXY=off GOSUMDB=off GOTOOLCHAIN=local
if [ -f tools/extract/main.go ]; then
  cp /repo/go.sum tools/extract/go.sum 2>/dev/null || true
  (cd tools/extract && go run . /repo > ../../coq/Gen/Tables.v.new && \
     (cmp -s ../../coq/Gen/Tables.v.new ../../coq/Gen/Tables.v || mv ../../coq/Gen/Tables.v.new ../../coq/Gen/Tables.v); rm -f ../../coq/Gen/Tables.v.new)
fi
python3 -c "import sys; sys.path.insert(0,'gen'); import common; common.write_coqproject()"
(cd coq && coq_makefile -f _CoqProject -o Makefile >/dev/null && timeout 3000 make -j16)
cp /repo/go.sum harness/go.sum
(cd harness && go build -tags verif -o /dev/null .)
if grep -rnE '\b(Admitted|admit|Axiom|Parameter|Conjecture)\b' coq --include='*.v' | grep -v '(\*' ; then
  echo "forbidden construct in Coq sources" >&2; exit 1
fi
echo setup ok
