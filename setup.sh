#!/bin/bash
# Offline setup: build the Coq development (full .vo build) and warm the Go build cache.
set -e
cd "$(dirname "$0")"
export GOFLAGS=-mod=mod GOPROXY=off GOSUMDB=off GOTOOLCHAIN=local
if [ -f tools/extract/main.go ]; then
  cp /repo/go.sum tools/extract/go.sum 2>/dev/null || true
  # writes coq/Gen/Tables.v and coq/Gen/Sigs.v, each only when its text changes; non-zero exit (and no
  # file written) when a table can no longer be read out of the source
  (cd tools/extract && go run . -o ../../coq/Gen /repo)
fi
python3 -c "import sys; sys.path.insert(0,'gen'); import common; common.write_coqproject()"
(cd coq && coq_makefile -f _CoqProject -o Makefile >/dev/null && timeout 3000 make -j16)
cp /repo/go.sum harness/go.sum
(cd harness && go build -tags verif -o /dev/null .)
if grep -rnE '\b(Admitted|admit|Axiom|Parameter|Conjecture)\b' coq --include='*.v' | grep -v '(\*' ; then
  echo "forbidden construct in Coq sources" >&2; exit 1
fi
echo setup ok
